import warnings, torch, math, traceback
warnings.filterwarnings("ignore")
import torchphysics as tp
from torchphysics.problem.domains.domain2D.shapely_polygon import ShapelyPolygon
X=tp.spaces.R2('x'); T=tp.spaces.R1('t'); X3=tp.spaces.R3('x'); U=tp.spaces.R1('u')
def tryit(name, f):
    try:
        r=f(); print("OK  ",name, r)
    except Exception as e:
        print("EXC ",name, type(e).__name__, str(e)[:150].replace("\n"," "))
# D1 sphere volume
S=tp.domains.Sphere(X3,[0,0,0],1.0)
tryit("sphere vol (expect 4.18879)", lambda: S.volume().item())
# D2 parallelogram cw volume
Pcw=tp.domains.Parallelogram(X,[0,0],[0,1],[1,0])
tryit("cw parallelogram vol", lambda: Pcw.volume().item())
Tcw=tp.domains.Triangle(X,[0,0],[0,1],[1,0])
tryit("cw triangle vol", lambda: Tcw.volume().item())
tryit("cw parallelogram density sample", lambda: len(Pcw.sample_random_uniform(d=10)))
# D3 normals for cw
pts=tp.spaces.Points(torch.tensor([[0.0,0.5],[0.5,0.0],[1.0,0.5],[0.5,1.0]]),X)
tryit("cw par normals", lambda: Pcw.boundary.normal(pts).tolist())
Pccw=tp.domains.Parallelogram(X,[0,0],[1,0],[0,1])
tryit("ccw par normals", lambda: Pccw.boundary.normal(pts).tolist())
pts2=tp.spaces.Points(torch.tensor([[0.0,0.5],[0.5,0.0],[0.5,0.5]]),X)
tryit("cw tri normals", lambda: Tcw.boundary.normal(pts2).tolist())
# D4 data sampler with params
ds=tp.samplers.DataSampler({'x':torch.rand(5,2)})
par=tp.spaces.Points(torch.tensor([[0.1],[0.2]]),T)
tryit("datasampler w params", lambda: ds.sample_points(par).as_tensor.shape)
# D5 IntervalSingleBoundaryPoint call
I=tp.domains.Interval(U, lambda t: t, lambda t: t+1)
tryit("bl(t=.5) nec vars", lambda: I.boundary_left(t=torch.tensor([[0.5]])).necessary_variables)
tryit("bl(t=.5) sample", lambda: I.boundary_left(t=torch.tensor([[0.5]])).sample_random_uniform(n=2).as_tensor.tolist())
tryit("boundary(t=.5) sample", lambda: I.boundary(t=torch.tensor([[0.5]])).sample_random_uniform(n=2).as_tensor.tolist())
# D6 sphere grid n=905
tryit("sphere grid 905", lambda: len(S.sample_grid(n=905)))
tryit("sphere grid 1000", lambda: len(S.sample_grid(n=1000)))
# D12 cut n=1 no params
C=tp.domains.Circle(X,[0,0],1.0); C2=tp.domains.Circle(X,[0,0],0.5)
tryit("cut n=1 rows", lambda: len((C-C2).sample_random_uniform(n=1)))
tryit("cut boundary n=1 rows", lambda: len((C-C2).boundary.sample_random_uniform(n=1)))
tryit("inters n=1 rows", lambda: len((C&C2).sample_random_uniform(n=1)))
# D13 intersection density w 1 param
Ct=tp.domains.Circle(X,[0,0],lambda t: t+1)
p1=tp.spaces.Points(torch.tensor([[0.5]]),T)
tryit("inters density with param", lambda: len((Ct&C).sample_random_uniform(d=20,params=p1)))
tryit("cut density with param", lambda: len((Ct-C2).sample_random_uniform(d=20,params=p1)))
# D10 shapely bbox
sp=ShapelyPolygon(X, vertices=[[0,0],[2,0],[2,1],[1,1],[1,2],[0,2]])
tryit("shapely bbox()", lambda: sp.bounding_box().tolist())
tryit("shapely bbox(params)", lambda: sp.bounding_box(tp.spaces.Points.empty()).tolist())
tryit("shapely boundary bbox", lambda: sp.boundary.bounding_box().tolist())
tryit("LHS on shapely", lambda: len(tp.samplers.LHSSampler(sp, 10).sample_points()))
# D14 rotate bbox
R=tp.domains.Rotate.from_angles(Pccw, math.pi/4)
tryit("rotate bbox 45deg (true: x in [-.707,.707], y in [0,1.414])", lambda: R.bounding_box().tolist())
tryit("rotate sample in bbox?", lambda: (R.sample_random_uniform(n=1000).as_tensor.min(0).values.tolist(), R.sample_random_uniform(n=1000).as_tensor.max(0).values.tolist()))
# D15 translate with callable + params
Tr=tp.domains.Translate(C, lambda t: torch.cat([t,t],dim=1))
tryit("translate rand n=10 k=1", lambda: Tr.sample_random_uniform(n=10,params=p1).as_tensor.shape)
p2=tp.spaces.Points(torch.tensor([[0.5],[5.0]]),T)
tryit("translate rand n=10 k=2", lambda: Tr.sample_random_uniform(n=10,params=p2).as_tensor.shape)
tryit("translate rand n=1 k=2", lambda: Tr.sample_random_uniform(n=1,params=p2).as_tensor.tolist())
tryit("translate grid n=10 k=2", lambda: Tr.sample_grid(n=10,params=p2).as_tensor.shape)
tryit("translate sampler n=10 k=2", lambda: tp.samplers.RandomUniformSampler(Tr,10).sample_points(p2).as_tensor.shape)
