"""Trial of the planned small repairs on a SCRATCH COPY of the tree (never /repo).

usage:  rm -rf /dev/shm/tpfix && mkdir -p /dev/shm/tpfix && cp -r /repo/src /repo/tests /repo/setup.cfg /dev/shm/tpfix/
        cd /dev/shm/tpfix && python3 /verif/design_probes/t19_trial_fixes.py
        PYTHONPATH=/dev/shm/tpfix/src /venv/bin/python -m pytest -q -p no:cacheprovider --timeout=900 -o addopts="" tests
        rm -rf /dev/shm/tpfix
Result in round 0: 780 passed, 3 known animation failures, 1 new failure (F25, pinned by the baseline).
"""
def patch(path, old, new):
    s = open(path).read()
    assert s.count(old) >= 1, (path, old[:50])
    open(path, 'w').write(s.replace(old, new, 1))
D = 'src/torchphysics/problem/domains/'
# F13 ball volume
patch(D+'domain3D/sphere.py', 'volume = 3.0 / 4.0 * np.pi * radius**3', 'volume = 4.0 / 3.0 * np.pi * radius**3')
# F14 unsigned areas
patch(D+'domain2D/parallelogram.py', 'volume = dir_1[:, :1] * dir_2[:, 1:] - dir_1[:, 1:] * dir_2[:, :1]\n        return volume', 'volume = dir_1[:, :1] * dir_2[:, 1:] - dir_1[:, 1:] * dir_2[:, :1]\n        return torch.abs(volume)')
patch(D+'domain2D/triangle.py', 'return volume / 2.0', 'return torch.abs(volume) / 2.0')
# F11 same absolute tolerance at 0 as rtol gives at 1
patch(D+'domain2D/parallelogram.py', 'close_to_0 = torch.isclose(bary_coord1, torch.tensor(0.0))', 'close_to_0 = torch.isclose(bary_coord1, torch.tensor(0.0), atol=1e-5)')
patch(D+'domain2D/parallelogram.py', 'y_close_i = torch.where(torch.isclose(bary_y, torch.tensor(i)), 2 * i - 1, 0.0)', 'y_close_i = torch.where(\n            torch.isclose(bary_y, torch.tensor(i), atol=1e-5), 2 * i - 1, 0.0\n        )')
patch(D+'domain2D/parallelogram.py', 'x_close_i = torch.where(torch.isclose(bary_x, torch.tensor(i)), 2 * i - 1, 0.0)', 'x_close_i = torch.where(\n            torch.isclose(bary_x, torch.tensor(i), atol=1e-5), 2 * i - 1, 0.0\n        )')
patch(D+'domain2D/triangle.py', 'close_to_0 = torch.isclose(bary_coord1, torch.tensor(0.0))', 'close_to_0 = torch.isclose(bary_coord1, torch.tensor(0.0), atol=1e-5)')
patch(D+'domain2D/triangle.py', 'close_to_i = torch.where(torch.isclose(bary_coord, torch.tensor(i)), 1.0, 0.0)', 'close_to_i = torch.where(\n            torch.isclose(bary_coord, torch.tensor(i), atol=1e-5), 1.0, 0.0\n        )')
# F12 orient normals by the sign of the determinant
patch(D+'domain2D/parallelogram.py', '''        # scale normal vectors if there where in a corner:
        return torch.divide(normals, torch.linalg.norm(normals, dim=1).reshape(-1, 1))''', '''        # normals above assume counter clockwise corners, flip them otherwise:
        det = dir_1[:, :1] * dir_2[:, 1:] - dir_1[:, 1:] * dir_2[:, :1]
        normals = normals * torch.sign(det)
        # scale normal vectors if there where in a corner:
        return torch.divide(normals, torch.linalg.norm(normals, dim=1).reshape(-1, 1))''')
patch(D+'domain2D/triangle.py', '''        # scale normal vectors if there where in a corner:
        return torch.divide(normals, torch.linalg.norm(normals, dim=1).reshape(-1, 1))''', '''        # normals above assume counter clockwise corners, flip them otherwise:
        det = -dir_1[:, :1] * dir_3[:, 1:] + dir_1[:, 1:] * dir_3[:, :1]
        normals = normals * torch.sign(det)
        # scale normal vectors if there where in a corner:
        return torch.divide(normals, torch.linalg.norm(normals, dim=1).reshape(-1, 1))''')
# F02 n=1 without parameters
H = D+'domainoperations/sampler_helper.py'
patch(H, '''    final_points = torch.zeros((len(params), main_domain.dim), device=device)
    found_valid = torch.zeros((len(params), 1), dtype=bool, device=device)''', '''    num_of_params = max(len(params), 1)
    final_points = torch.zeros((num_of_params, main_domain.dim), device=device)
    found_valid = torch.zeros((num_of_params, 1), dtype=bool, device=device)''')
patch(H, '''    final_points = torch.zeros((len(params), main_domain.dim + 1), device=device)
    found_valid = torch.zeros((len(params), 1), dtype=bool, device=device)''', '''    num_of_params = max(len(params), 1)
    final_points = torch.zeros((num_of_params, main_domain.dim + 1), device=device)
    found_valid = torch.zeros((num_of_params, 1), dtype=bool, device=device)''')
# F03 intersection density with parameters
patch(D+'domainoperations/intersection.py', '''        n = len(params)
        _, repeated_params = self._repeat_params(n, params)
        in_b = self.domain_b._contains(points=points, params=repeated_params)''', '''        n = len(points)
        _, repeated_params = self._repeat_params(n, params)
        in_b = self.domain_b._contains(points=points, params=repeated_params)''')
# F04 DataSampler with parameters
patch('src/torchphysics/problem/samplers/data_samplers.py', '''            repeated_params = Points(repeated_tensor, params.space)
        print''', '''            repeated_params = Points(repeated_tensor, params.space)
        else:
            repeated_params = params
        print''')
# F01 sphere grid with more lattice points than requested
patch(D+'domain3D/sphere.py', '''        if len(points_inside) == n:
            return points_inside''', '''        if len(points_inside) >= n:
            return points_inside[:n]''')
# F19 do not rewrite the user's dict
patch('src/torchphysics/problem/conditions/condition.py', '''    def _setup_data_functions(self, data_functions, sampler):
        for fun in data_functions:''', '''    def _setup_data_functions(self, data_functions, sampler):
        # work on a copy, the given dict may be shared with other conditions
        data_functions = dict(data_functions)
        for fun in data_functions:''')
# F25 (breaks baseline test test_call_single_interval_bound -> will be recorded, not fixed)
patch(D+'domain1D/interval.py', '''        evaluate_domain = self.domain(**data)
        return IntervalSingleBoundaryPoint(
            evaluate_domain, side=self.side, normal_vec=self.normal_vec
        )''', '''        evaluate_domain = self.domain(**data)
        evaluate_side = DomainUserFunction(self.side.partially_evaluate(**data))
        return IntervalSingleBoundaryPoint(
            evaluate_domain, side=evaluate_side, normal_vec=self.normal_vec
        )''')
patch(D+'domain1D/interval.py', 'from ...spaces import Points\n', 'from ...spaces import Points\nfrom ....utils.user_fun import DomainUserFunction\n')
# F27 rotate all corners of the box
patch(D+'domainoperations/rotate.py', '''        rotated_min = torch.matmul(rotation_matrix, domain_bounds[:, ::2].unsqueeze(-1))
        rotated_min = rotated_min.squeeze(-1)
        rotated_max = torch.matmul(
            rotation_matrix, domain_bounds[:, 1::2].unsqueeze(-1)
        )
        rotated_max = rotated_max.squeeze(-1)
        domain_bounds = torch.zeros(
            (len(rotated_min), 2 * self.space.dim), device=device
        )
        domain_bounds[:, ::2] = torch.min(rotated_min, rotated_max)
        domain_bounds[:, 1::2] = torch.max(rotated_min, rotated_max)''', '''        # rotate all corners of the box, not only the two extreme ones
        dim = self.space.dim
        corner_index = torch.cartesian_prod(*(dim * [torch.arange(2)])).reshape(-1, dim)
        axis_index = 2 * torch.arange(dim) + corner_index  # (2**dim, dim)
        corners = domain_bounds[:, axis_index]  # (rows, 2**dim, dim)
        rotated = torch.matmul(
            rotation_matrix.unsqueeze(1), corners.unsqueeze(-1)
        ).squeeze(-1)
        domain_bounds = torch.zeros((len(rotated), 2 * dim), device=device)
        domain_bounds[:, ::2] = torch.min(rotated, dim=1).values
        domain_bounds[:, 1::2] = torch.max(rotated, dim=1).values''')
print("patched")
