import warnings, torch, math, random, numpy as np
warnings.filterwarnings("ignore")
import torchphysics as tp
torch.set_num_threads(1)
X=tp.spaces.R2('x'); X3=tp.spaces.R3('x')
rnd=random.Random(7)
def U(a,b): return rnd.uniform(a,b)
# reference margins (float64)
def m_circ(p,c,r): return r-np.linalg.norm(p-c,axis=1)
def m_poly(p,V): # convex polygon, vertices any orientation
    V=np.asarray(V,float); n=len(V)
    area=0.5*sum(V[i][0]*V[(i+1)%n][1]-V[(i+1)%n][0]*V[i][1] for i in range(n))
    s=1.0 if area>0 else -1.0
    ms=[]
    for i in range(n):
        a=V[i]; b=V[(i+1)%n]; e=b-a; nrm=np.array([e[1],-e[0]])*s/np.linalg.norm(e) # outward
        ms.append(-( (p-a)@nrm ))
    return np.min(ms,axis=0)
def gen_prim():
    kind=rnd.choice(['circ','par','tri'])
    if kind=='circ':
        c=[U(-4,4),U(-4,4)]; r=U(0.5,3)
        return tp.domains.Circle(X,c,r), (lambda p,c=np.array(c),r=r: m_circ(p,c,r))
    while True:
        o=np.array([U(-4,4),U(-4,4)]); a=np.array([U(-3,3),U(-3,3)]); b=np.array([U(-3,3),U(-3,3)])
        la,lb=np.linalg.norm(a),np.linalg.norm(b)
        if not(0.5<=la<=3 and 0.5<=lb<=3): continue
        cr=a[0]*b[1]-a[1]*b[0]
        if cr<=0: continue  # ccw only here
        ang=math.degrees(math.asin(min(1,abs(cr)/(la*lb))))
        if ang<25: continue
        if kind=='tri':
            lc=np.linalg.norm(b-a)
            if lc<0.5: continue
            # other angles
            ang2=math.degrees(math.acos(np.clip(((-a)@(b-a))/(la*lc),-1,1))); ang3=180-ang2-math.degrees(math.acos(np.clip((a@b)/(la*lb),-1,1)))
            if min(ang2,ang3)<25: continue
        break
    if kind=='par':
        V=[o,o+a,o+a+b,o+b]
        return tp.domains.Parallelogram(X,o.tolist(),(o+a).tolist(),(o+b).tolist()), (lambda p,V=V: m_poly(p,V))
    V=[o,o+a,o+b]
    return tp.domains.Triangle(X,o.tolist(),(o+a).tolist(),(o+b).tolist()), (lambda p,V=V: m_poly(p,V))
worst_in=0; worst_b=0; cnt=0; worst_in_case=None
stats={}
for it in range(1500):
    D,m=gen_prim()
    for n in (1,7,50):
        p=D.sample_random_uniform(n=n).as_tensor.double().numpy(); v=-m(p).min(); 
        g=D.sample_grid(n=n).as_tensor.double().numpy(); v=max(v,-m(g).min())
        if v>worst_in: worst_in=v; worst_in_case=type(D).__name__
        pb=D.boundary.sample_random_uniform(n=n).as_tensor.double().numpy(); gb=D.boundary.sample_grid(n=n).as_tensor.double().numpy()
        vb=max(np.abs(m(pb)).max(),np.abs(m(gb)).max()); worst_b=max(worst_b,vb)
    # transforms
    ang=U(0,2*math.pi); piv=[U(-4,4),U(-4,4)]
    R=tp.domains.Rotate.from_angles(D,ang,rotate_around=piv); tv=np.array([U(-4,4),U(-4,4)])
    TR=tp.domains.Translate(R,tv.tolist())
    c,s=math.cos(ang),math.sin(ang); M=np.array([[c,-s],[s,c]]); pv=np.array(piv)
    def mT(p): 
        q=p-tv; q=(q-pv)@M + pv  # inverse rotation: M^T applied = (q-pv)@M
        return m(q)
    p=TR.sample_random_uniform(n=50).as_tensor.double().numpy(); worst_in=max(worst_in,-mT(p).min())
    pb=TR.boundary.sample_random_uniform(n=50).as_tensor.double().numpy(); worst_b=max(worst_b,np.abs(mT(pb)).max())
    # ops
    D2,m2=gen_prim()
    for op,mm in (('cut',lambda p: np.minimum(m(p),-m2(p))),('int',lambda p: np.minimum(m(p),m2(p))),('uni',lambda p: np.maximum(m(p),m2(p)))):
        E={'cut':D-D2,'int':D&D2,'uni':D+D2}[op]
        # skip if tiny measure: estimate
        q=np.column_stack([np.random.uniform(-8,8,20000),np.random.uniform(-8,8,20000)]); frac=(mm(q)>0.1).mean()
        if frac<0.002: continue
        try:
            p=E.sample_random_uniform(n=20).as_tensor.double().numpy(); v=-mm(p).min()
            stats[op]=max(stats.get(op,0),v)
            pb=E.boundary.sample_random_uniform(n=20).as_tensor.double().numpy(); vb=np.abs(mm(pb)).max(); stats[op+'_b']=max(stats.get(op+'_b',0),vb)
        except Exception as e:
            stats[op+'_exc']=stats.get(op+'_exc',0)+1; stats[op+'_lastexc']=type(e).__name__+str(e)[:80]
print("worst interior violation",worst_in,worst_in_case,"worst boundary |margin|",worst_b)
print(stats)
