import warnings, torch, math, os, shutil, copy, logging, time
warnings.filterwarnings("ignore")
import pytorch_lightning as pl
import torchphysics as tp
exec(open('t3.py').read().split("N=10")[0].split("import torchphysics as tp")[1])
d='/tmp/scratch/ws'; shutil.rmtree(d,ignore_errors=True); os.makedirs(d)
for interval in (1,2,3):
    solver,model,k=build()
    starts=[]
    class Rec(pl.Callback):
        def on_train_batch_start(self,trainer,pl_module,batch,batch_idx):
            starts.append({k:v.clone() for k,v in model.state_dict().items()})
    init={k:v.clone() for k,v in model.state_dict().items()}
    cb=tp.utils.WeightSaveCallback(model,d,f'w{interval}',interval,save_initial_model=True)
    tr=trainer(8,[Rec(),cb],log_every_n_steps=1)
    try:
        tr.fit(solver)
    except Exception as e:
        print("EXC",type(e).__name__,e); continue
    fin={k:v.clone() for k,v in model.state_dict().items()}
    def load(n): return torch.load(f'{d}/w{interval}_{n}.pt')
    same=lambda a,b: all(torch.equal(a[k],b[k]) for k in a)
    print("interval",interval,"init ok",same(load('init'),init),"final ok",same(load('final'),fin))
    ml=load('min_loss'); print("  min_loss matches start-of-batch idx:",[i for i,s in enumerate(starts) if same(ml,s)], "final?",same(ml,fin))
    # load into fresh model
    torch.manual_seed(99); m2=tp.models.FCN(X,U,hidden=(6,6)); m2.load_state_dict(load('final')); print("  fresh load final ok", same(m2.state_dict(),fin))
# default log_every_n_steps
solver,model,k=build()
cb=tp.utils.WeightSaveCallback(model,d,'wd',1)
try:
    trainer(8,[cb]).fit(solver); print("default logging ok; files:",sorted(os.listdir(d)))
except Exception as e: print("EXC default logging",type(e).__name__,e)
