import warnings, torch, math, inspect
warnings.filterwarnings("ignore")
import torchphysics as tp, numpy as np, trimesh
X=tp.spaces.R2('x'); T=tp.spaces.R1('t')
sq=tp.domains.Parallelogram(X,[1,2],[4,2],[1,3])
n=17
p=tp.samplers.LHSSampler(sq,n).sample_points().as_tensor
for ax,(lo,hi) in enumerate(((1,4),(2,3))):
    slab=torch.floor((p[:,ax]-lo)/(hi-lo)*n).long().clamp(0,n-1)
    print("axis",ax,"one per slab:", sorted(slab.tolist())==list(range(n)))
src=inspect.getsource(trimesh.sample.volume_mesh); print([l.strip() for l in src.splitlines() if 'random' in l])
src=inspect.getsource(trimesh.sample.sample_surface); print([l.strip() for l in src.splitlines() if 'random' in l or 'seed' in l][:6])
# gaussian sampler
g=tp.samplers.GaussianSampler(sq,1000,mean=[2.0,2.5],std=0.5).sample_points().as_tensor
print("gauss in box", bool(((g[:,0]>=1)&(g[:,0]<=4)&(g[:,1]>=2)&(g[:,1]<=3)).all()), g.mean(0).tolist())
# density counts for primitives
C=tp.domains.Circle(X,[0,0],1.3)
for d in (1.0,7.3,100.0):
    print("circle density",d,len(C.sample_random_uniform(d=d)), math.ceil(d*math.pi*1.69), "grid", len(C.sample_grid(d=d)), "par grid", len(sq.sample_grid(d=d)), math.ceil(d*3))
# adaptive random sampler shape with params
ad=tp.samplers.AdaptiveRandomRejectionSampler(sq,n_points=6)
a=ad.sample_points(); b=ad.sample_points(unreduced_loss=torch.tensor([0.,1,2,3,4,5])); print("adaptive same obj", a is b, len(b))
import hashlib
print("PYTHONHASHSEED test set order", list({'s','t','x','u'}))
