import warnings, torch, math, collections
warnings.filterwarnings("ignore")
import pytorch_lightning as pl, torchphysics as tp
from torchphysics.problem.spaces import FunctionSpace
torch.set_num_threads(1)
X=tp.spaces.R2('x'); T=tp.spaces.R1('t'); U=tp.spaces.R1('u'); K=tp.spaces.R1('k'); E=tp.spaces.R1('e')
sq=tp.domains.Parallelogram(X,[0,0],[1,0],[0,1]); It=tp.domains.Interval(T,0,1)
def samplers(dom,n=6):
    return {'fresh':lambda: tp.samplers.RandomUniformSampler(dom,n),
            'static':lambda: tp.samplers.RandomUniformSampler(dom,n).make_static(),
            'static2':lambda: tp.samplers.RandomUniformSampler(dom,n).make_static(2),
            'grid':lambda: tp.samplers.GridSampler(dom,n),
            'adaptT':lambda: tp.samplers.AdaptiveThresholdRejectionSampler(dom,0.5,n_points=n),
            'adaptR':lambda: tp.samplers.AdaptiveRandomRejectionSampler(dom,n_points=n)}
res=collections.OrderedDict()
def run(name,f):
    try: v=f(); res[name]='ok '+str([round(float(x),4) for x in v])
    except Exception as e: res[name]='EXC '+type(e).__name__+': '+str(e)[:90].replace('\n',' ')
def ev(c,times=3): return [c().item() for _ in range(times)]
torch.manual_seed(0)
model=tp.models.FCN(X,U,hidden=(5,))
model_xt=tp.models.FCN(X*T,U,hidden=(5,))
for sname,mk in samplers(sq).items():
    for df in (False,True):
        d={'f':lambda x: x[:,:1]} if df else {}
        r=(lambda u,f: u-f) if df else (lambda u: u)
        run(f'PINN|{sname}|df={df}', lambda: ev(tp.conditions.PINNCondition(model,mk(),r,data_functions=dict(d))))
        run(f'Mean|{sname}|df={df}', lambda: ev(tp.conditions.MeanCondition(model,mk(),r,data_functions=dict(d))))
        run(f'HPMs|{sname}|df={df}', lambda: ev(tp.conditions.HPM_EquationLoss_at_Sampler(model,mk(),(lambda x,f: x[:,:1]-f) if df else (lambda x: x[:,:1]),data_functions=dict(d))))
        if sname in ('static','static2'):
            run(f'AdaptW|{sname}|df={df}', lambda: ev(tp.conditions.AdaptiveWeightsCondition(model,mk(),r,data_functions=dict(d))))
        run(f'Integro|{sname}|df={df}', lambda: ev(tp.conditions.IntegroPINNCondition(model_xt,tp.samplers.RandomUniformSampler(It,3)*mk() if False else (mk()*tp.samplers.GridSampler(It,2) if sname not in('adaptT','adaptR') else mk()), (lambda u,u_integral,f: u-u_integral.mean(1)-f) if df else (lambda u,u_integral: u-u_integral.mean(1)), tp.samplers.GridSampler(It,4).make_static(),data_functions=dict(d))))
# periodic
Iu=tp.domains.Interval(tp.spaces.R1('y'),0,2); m_ty=tp.models.FCN(T*tp.spaces.R1('y'),U,hidden=(4,))
for sname,mk in samplers(Iu,4).items():
    for df in (False,True):
        d={'g':lambda t,y: t+10*y} if df else {}
        r=(lambda u_left,u_right,g_left,g_right: u_left-u_right+g_left-g_right) if df else (lambda u_left,u_right: u_left-u_right)
        run(f'Periodic|{sname}|df={df}', lambda: ev(tp.conditions.PeriodicCondition(m_ty,It,r,non_periodic_sampler=mk(),data_functions=dict(d))))
run('Periodic|empty|df=False', lambda: ev(tp.conditions.PeriodicCondition(tp.models.FCN(T,U,hidden=(3,)),It,lambda u_left,u_right:u_left-u_right)))
# deeponet
fs=FunctionSpace(It,E)
def mknet():
    return tp.models.DeepONet(tp.models.FCTrunkNet(T,hidden=(4,)),tp.models.FCBranchNet(fs,tp.samplers.GridSampler(It,5).make_static(),hidden=(4,)),U,6)
fset=tp.domains.CustomFunctionSet(fs,tp.samplers.RandomUniformSampler(tp.domains.Interval(K,0,1),3),lambda k,t:k*t)
for sname,mk in samplers(It,4).items():
    run(f'PIDeepONet|{sname}', lambda: [tp.conditions.PIDeepONetCondition(mknet(),fset,mk(),lambda u,t,e: u-e)(iteration=i).item() for i in range(3)])
# parameter condition, data condition
p=tp.models.Parameter([1.0,2.0],tp.spaces.R2('p'))
run('ParamCond', lambda: ev(tp.conditions.ParameterCondition(p,lambda p: (p**2).sum(),1.0)))
xs=tp.spaces.Points(torch.rand(10,2),X); ys=tp.spaces.Points(torch.rand(10,1),U)
for full in (False,True):
    for norm in (2,'inf'):
        run(f'Data|full={full}|norm={norm}', lambda: ev(tp.conditions.DataCondition(model,tp.utils.PointsDataLoader((xs,ys),4),norm,root=2.0 if norm==2 else 1.0,use_full_dataset=full),5))
for k,v in res.items(): print(k,'->',v[:140])
# scheduler frequency semantics
print('--- scheduler frequency')
for freq in (1,2,3):
    torch.manual_seed(1); m=tp.models.FCN(X,U,hidden=(3,))
    c=tp.conditions.PINNCondition(m,tp.samplers.GridSampler(sq,4).make_static(),lambda u:u)
    s=tp.solver.Solver([c],optimizer_setting=tp.OptimizerSetting(torch.optim.SGD,lr=1.0,scheduler_class=torch.optim.lr_scheduler.ExponentialLR,scheduler_args={'gamma':0.5},scheduler_frequency=freq))
    lrs=[]
    class R(pl.Callback):
        def on_train_batch_start(self,tr,mod,b,i): lrs.append(tr.optimizers[0].param_groups[0]['lr'])
    pl.Trainer(max_steps=7,accelerator='cpu',devices=1,logger=False,enable_checkpointing=False,enable_progress_bar=False,enable_model_summary=False,num_sanity_val_steps=0,callbacks=[R()]).fit(s)
    print('freq',freq,'lr at start of each batch',lrs)
