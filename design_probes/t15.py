import warnings, torch, math
warnings.filterwarnings("ignore")
import torchphysics as tp
X=tp.spaces.R2('x'); T=tp.spaces.R1('t'); S=tp.spaces.R1('s')
# dependent product: circle radius depends on t (second factor) and s (external)
C=tp.domains.Circle(X,[0,0],lambda t,s: 0.5+t+s)
I=tp.domains.Interval(T,0,1)
PD=C*I
for k in (1,2,3):
    par=tp.spaces.Points(torch.arange(k).float().reshape(-1,1),S)
    for n in (1,4,10):
        try:
            p=PD.sample_random_uniform(n=n,params=par)
            print("k",k,"n",n,"rows",len(p),"expected",n*k, end=" | ")
            try:
                q=tp.samplers.RandomUniformSampler(PD,n).sample_points(par); print("sampler rows",len(q))
            except Exception as e: print("sampler EXC",type(e).__name__,str(e)[:80])
        except Exception as e: print("k",k,"n",n,"EXC",type(e).__name__,str(e)[:100])
# no external
C2=tp.domains.Circle(X,[0,0],lambda t: 0.5+t); PD2=C2*I
p=PD2.sample_random_uniform(n=7); print("dep product no ext rows",len(p), bool((p.as_tensor[:,:2].norm(dim=1)<=0.5+p.as_tensor[:,2]+1e-5).all()))
# translate grid constant k=2
Tr=tp.domains.Translate(tp.domains.Circle(X,[0,0],1.0),[1.0,2.0])
par=tp.spaces.Points(torch.tensor([[0.],[1.]]),S)
try: print("translate const grid k=2", Tr.sample_grid(n=5,params=par).as_tensor.shape)
except Exception as e: print("EXC",type(e).__name__,str(e)[:100])
try: print("translate const rand k=2 n=5", Tr.sample_random_uniform(n=5,params=par).as_tensor.shape)
except Exception as e: print("EXC",type(e).__name__,str(e)[:100])
try: print("translate const sampler k=2 n=5", tp.samplers.RandomUniformSampler(Tr,5).sample_points(par).as_tensor.shape)
except Exception as e: print("EXC",type(e).__name__,str(e)[:100])
