import warnings, torch, math, os, shutil, copy, logging, time
warnings.filterwarnings("ignore")
logging.getLogger("pytorch_lightning").setLevel(logging.ERROR)
logging.getLogger("lightning").setLevel(logging.ERROR)
import pytorch_lightning as pl
import torchphysics as tp
X=tp.spaces.R2('x'); U=tp.spaces.R1('u')
sq=tp.domains.Parallelogram(X,[0,0],[1,0],[0,1])
def build(seed=0, sched=False):
    torch.manual_seed(seed)
    model=tp.models.FCN(X,U,hidden=(6,6))
    k=tp.models.Parameter(0.5,tp.spaces.R1('k'))
    s1=tp.samplers.GridSampler(sq,16).make_static()
    s2=tp.samplers.GridSampler(sq.boundary,8).make_static()
    c1=tp.conditions.PINNCondition(model,s1,lambda u,x,k: tp.utils.laplacian(u,x)-k*torch.sin(x[:,:1]),parameter=k,name='pde',weight=2.0)
    c2=tp.conditions.PINNCondition(model,s2,lambda u: u-1.0,name='bc',weight=0.5)
    if sched:
        opt=tp.OptimizerSetting(torch.optim.Adam,lr=1e-2,scheduler_class=torch.optim.lr_scheduler.StepLR,scheduler_args={'step_size':3,'gamma':0.5})
    else:
        opt=tp.OptimizerSetting(torch.optim.Adam,lr=1e-2)
    solver=tp.solver.Solver([c1,c2],optimizer_setting=opt)
    return solver,model,k
def trainer(N,cbs=(),**kw):
    return pl.Trainer(max_steps=N,accelerator='cpu',devices=1,logger=False,enable_checkpointing=False,enable_progress_bar=False,enable_model_summary=False,num_sanity_val_steps=0,callbacks=list(cbs),**kw)
def state(solver): return {k:v.clone() for k,v in solver.state_dict().items()}
def eq(a,b): return all(torch.equal(a[k],b[k]) for k in a) and a.keys()==b.keys()
N=10
t0=time.time()
solver,model,k=build(sched=True)
tr=trainer(N); tr.fit(solver); full=state(solver); fullopt=copy.deepcopy(tr.optimizers[0].state_dict())
print("fit time",time.time()-t0, "global_step",tr.global_step)
# reference loop
solver2,model2,k2=build(sched=True)
opt=torch.optim.Adam(solver2.parameters(),lr=1e-2); sch=torch.optim.lr_scheduler.StepLR(opt,step_size=3,gamma=0.5)
for it in range(N):
    opt.zero_grad()
    loss=sum(c.weight*c(iteration=it) for c in solver2.train_conditions)
    loss.backward(); opt.step(); sch.step()
ref=state(solver2)
print("solver==ref loop:",eq(full,ref), max((full[k]-ref[k]).abs().max().item() for k in full if full[k].numel()))
# checkpoint/resume
d='/tmp/scratch/ck'; shutil.rmtree(d,ignore_errors=True); os.makedirs(d)
for kk in [0,3,6]:
    solver3,_,_=build(sched=True)
    # run to N with checkpoint every step but keep only at batch_idx==kk: emulate by interval & stopping
    class CK(tp.utils.TrainerStateCheckpoint):
        def on_train_batch_end(self,trainer,pl_module,outputs,batch,batch_idx,dataloader_idx=0):
            if batch_idx==kk: trainer.save_checkpoint(self.path+"/"+self.name+".ckpt")
    tr3=trainer(N,[CK(d,f'c{kk}')]); tr3.fit(solver3)
    solver4,_,_=build(seed=123,sched=True)
    tr4=trainer(N); tr4.fit(solver4,ckpt_path=f'{d}/c{kk}.ckpt')
    res=state(solver4)
    print("resume from",kk,"==full:",eq(res,full), "gs",tr4.global_step, max((res[k]-full[k]).abs().max().item() for k in full if full[k].numel()), "opt step", tr4.optimizers[0].state_dict()['state'][0]['step'], "lr",tr4.optimizers[0].param_groups[0]['lr'], "full lr", fullopt['param_groups'][0]['lr'])
