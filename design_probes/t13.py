import warnings, torch, math, time, numpy as np
warnings.filterwarnings("ignore")
import pytorch_lightning as pl, torchphysics as tp
from scipy import stats
torch.set_num_threads(1)
class SimRNG:
    def __init__(self,seed): self.g=torch.Generator().manual_seed(seed); self.n=0; self.o=(torch.rand,torch.rand_like,torch.randperm,torch.normal)
    def __enter__(self):
        o_rand,o_rl,o_rp,o_n=self.o
        def rand(*a,**k): self.n+=1; k.pop('generator',None); return o_rand(*a,generator=self.g,**k)
        def rand_like(x,**k): self.n+=1; return o_rand(x.shape,generator=self.g,dtype=k.get('dtype',x.dtype),device=k.get('device',x.device))
        def randperm(n,**k): self.n+=1; k.pop('generator',None); return o_rp(n,generator=self.g,**k)
        def normal(*a,**k): self.n+=1; k.pop('generator',None); return o_n(*a,generator=self.g,**k)
        torch.rand,torch.rand_like,torch.randperm,torch.normal=rand,rand_like,randperm,normal; return self
    def __exit__(self,*a): torch.rand,torch.rand_like,torch.randperm,torch.normal=self.o
torch.set_default_dtype(torch.float64)
X=tp.spaces.R2('x'); U=tp.spaces.R1('u')
sq=tp.domains.Parallelogram(X,[0,0],[1,0],[0,1]); C=tp.domains.Circle(X,[0.5,0.5],0.3)
def build():
    torch.manual_seed(3)
    model=tp.models.FCN(X,U,hidden=(6,6)); k=tp.models.Parameter(0.5,tp.spaces.R1('k'))
    c1=tp.conditions.PINNCondition(model,tp.samplers.RandomUniformSampler(sq-C,20),lambda u,x,k: tp.utils.laplacian(u,x)-k*torch.sin(x[:,:1]),parameter=k,name='pde',weight=2.0)
    c2=tp.conditions.PINNCondition(model,tp.samplers.RandomUniformSampler(sq.boundary,9),lambda u: u-1.0,name='bc',weight=0.5)
    v=tp.conditions.PINNCondition(model,tp.samplers.GridSampler(sq,9).make_static(),lambda u:u,name='v')
    return [c1,c2],[v],model
N=8
tc,vc,model=build()
solver=tp.solver.Solver(tc,vc,optimizer_setting=tp.OptimizerSetting(torch.optim.Adam,lr=1e-2))
with SimRNG(11) as r:
    pl.Trainer(max_steps=N,accelerator='cpu',devices=1,logger=False,enable_checkpointing=False,enable_progress_bar=False,enable_model_summary=False,num_sanity_val_steps=2,val_check_interval=3).fit(solver)
    d1=r.n
A={k:v.clone() for k,v in solver.state_dict().items()}
tc2,vc2,model2=build()
params=[p for c in tc2 for p in c.parameters()]; seen=set(); params=[p for p in params if not (id(p) in seen or seen.add(id(p)))]
opt=torch.optim.Adam(params,lr=1e-2)
with SimRNG(11) as r:
    for it in range(N):
        opt.zero_grad(); loss=torch.zeros(1)
        for c in tc2: loss=loss+c.weight*c(iteration=it)
        loss.backward(); opt.step()
    d2=r.n
B={k:v for k,v in torch.nn.ModuleList(tc2).state_dict().items()}
ka=[k for k in A if k.startswith('train_conditions.')]
print("draw calls",d1,d2,"max abs diff",max((A[k]-B[k[len('train_conditions.'):]]).abs().max().item() for k in ka if A[k].numel()))
# C11 feasibility: two-sample chi2 on triangle; and missing sqrt circle
torch.set_default_dtype(torch.float32)
def chi2_two(a,b,G=6,lo=-1,hi=1):
    ea=np.histogram2d(a[:,0],a[:,1],bins=G,range=[[lo,hi],[lo,hi]])[0].ravel(); eb=np.histogram2d(b[:,0],b[:,1],bins=G,range=[[lo,hi],[lo,hi]])[0].ravel()
    keep=(ea+eb)>0; ea,eb=ea[keep],eb[keep]; na,nb=ea.sum(),eb.sum()
    # merge small
    stat=(((ea*math.sqrt(nb/na)-eb*math.sqrt(na/nb))**2)/(ea+eb)).sum(); df=keep.sum()-1
    return stat,df,stats.chi2.sf(stat,df)
M=60000
t0=time.time()
Cc=tp.domains.Circle(X,[0,0],1.0)
a=Cc.sample_random_uniform(n=M).as_tensor.numpy()
rng=np.random.default_rng(5); q=rng.uniform(-1,1,(int(M*10/0.785)+1000,2)); ref=q[(q**2).sum(1)<=1][:10*M]
print("circle ok:",chi2_two(a,ref), "time",time.time()-t0)
# mutant: no sqrt
r=torch.rand(M,1); phi=2*math.pi*torch.rand(M,1); bad=torch.cat([r*torch.cos(phi),r*torch.sin(phi)],1).numpy()
print("circle no-sqrt:",chi2_two(bad,ref))
# subtle: r**0.52
r=torch.rand(M,1)**0.52; bad=torch.cat([r*torch.cos(phi),r*torch.sin(phi)],1).numpy()
print("circle pow .52:",chi2_two(bad,ref))
print("chi2 isf(1e-9, 30)=",stats.chi2.isf(1e-9,30))
