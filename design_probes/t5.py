import warnings, torch, itertools
warnings.filterwarnings("ignore")
import torchphysics as tp
from torchphysics.utils.data.deeponet_dataloader import DeepONetDataset, DeepONetDataset_Unique
B=tp.spaces.R1('f'); TR=tp.spaces.R1('x'); O=tp.spaces.R1('u')
def run(Nb,Nt,bb,bt,unique=False,shb=False,sht=False):
    branch=torch.arange(Nb).float().reshape(Nb,1,1).repeat(1,3,1)  # function id
    if unique:
        trunk=(torch.arange(Nt).float().reshape(1,Nt,1)+1000*torch.arange(Nb).float().reshape(Nb,1,1))
    else:
        trunk=torch.arange(Nt).float().reshape(Nt,1)
    out=(torch.arange(Nb).float().reshape(Nb,1,1)*100+torch.arange(Nt).float().reshape(1,Nt,1))
    dl=tp.utils.DeepONetDataLoader(branch,trunk,out,B,TR,O,bb,bt,shuffle_branch=shb,shuffle_trunk=sht)
    seen=set(); bad=0; big=0; nb=0
    for b,t,o in dl:
        nb+=1
        bi=b.as_tensor[:,0,0]; 
        if len(bi)>bb or t.as_tensor.shape[-2]>bt: big+=1
        for i in range(len(bi)):
            tt=t.as_tensor[i,:,0] if unique else t.as_tensor[:,0]
            for j in range(len(tt)):
                fid=int(bi[i]); loc=int(tt[j])%1000
                if unique and int(tt[j])//1000!=fid: bad+=1
                if int(o.as_tensor[i,j,0])!=fid*100+loc: bad+=1
                seen.add((fid,loc))
    return nb,len(seen),Nb*Nt,bad,big
for cfg in [(4,4,2,2),(4,6,2,3),(3,5,2,2),(4,4,4,4),(6,4,3,2),(5,5,5,1),(3,3,5,5),(2,8,1,4)]:
    for uq in (False,True):
        try: print(cfg,"unique" if uq else "shared", "batches,seen,total,bad,big=",run(*cfg,unique=uq))
        except Exception as e: print(cfg,uq,"EXC",type(e).__name__,str(e)[:100])
# PointsDataLoader
for N,bs,dl_ in [(10,3,False),(10,3,True),(7,7,False),(5,8,False)]:
    x=tp.spaces.Points(torch.arange(N).float().reshape(N,1),TR); y=tp.spaces.Points(torch.arange(N).float().reshape(N,1)*2,O)
    dl=tp.utils.PointsDataLoader((x,y),bs,shuffle=True,drop_last=dl_)
    got=[(a.as_tensor[:,0].tolist(),b.as_tensor[:,0].tolist()) for a,b in dl]
    print(N,bs,dl_,len(got),[len(g[0]) for g in got], all(all(2*p==q for p,q in zip(*g)) for g in got), sorted(sum([g[0] for g in got],[]))==list(range(N)))
print("--- unique Bl!=Tl")
for cfg in [(6,4,2,2),(4,6,2,2),(6,6,2,3),(2,6,1,2)]:
    print(cfg,"unique batches,seen,total,bad,big=",run(*cfg,unique=True))
