import warnings, torch, math, traceback
warnings.filterwarnings("ignore")
import torchphysics as tp
X=tp.spaces.R2('x'); T=tp.spaces.R1('t'); U=tp.spaces.R1('u')
def tryit(name, f):
    try:
        r=f(); print("OK  ",name, r)
    except Exception as e:
        print("EXC ",name, type(e).__name__, str(e)[:200].replace("\n"," "))
torch.manual_seed(0)
model=tp.models.FCN(X,U,hidden=(5,))
sq=tp.domains.Parallelogram(X,[0,0],[1,0],[0,1])
# C14: shared data_functions dict, first static
d={'f': lambda x: x[:,:1]*10}
orig=d['f']
s1=tp.samplers.RandomUniformSampler(sq,4).make_static()
s2=tp.samplers.RandomUniformSampler(sq,6)
seen={}
def res1(u,f): seen['c1']=f.clone(); return u-f
def res2(u,f,x): seen['c2']=(f.clone(),x.clone()); return u-f
c1=tp.conditions.PINNCondition(model,s1,res1,data_functions=d)
print("dict mutated:", d['f'] is not orig, type(d['f']).__name__, type(d['f'].fun))
tryit("c2 construct+forward", lambda: (tp.conditions.PINNCondition(model,s2,res2,data_functions=d,name='c2')(),)[0].item())
if 'c2' in seen: print("c2 f shape",seen['c2'][0].shape,"x shape",seen['c2'][1].shape, "f==10x?", torch.allclose(seen['c2'][0], seen['c2'][1][:,:1]*10) if seen['c2'][0].shape[0]==seen['c2'][1].shape[0] else 'shape mismatch')
# C04/C15: static sampler with finite resample interval & data function staleness
d2={'f': lambda x: x[:,:1]*10}
s3=tp.samplers.RandomUniformSampler(sq,3).make_static(resample_interval=2)
log=[]
def res3(u,f,x): log.append((f.detach().clone(),x.detach().clone())); return u-f
c3=tp.conditions.PINNCondition(model,s3,res3,data_functions=d2)
for i in range(5): c3()
for i,(f,x) in enumerate(log): print(i,"f==10x:",torch.allclose(f,10*x[:,:1]), x[:,0].tolist())
# periodic with static sampler and data fn
I=tp.domains.Interval(T,0,1); Xi=tp.domains.Interval(U,0,2)
m2=tp.models.FCN(T*U,tp.spaces.R1('w'),hidden=(4,))
plog={}
def pres(w_left,w_right,g_left,g_right,t_left,t_right,u):
    plog['g']=(g_left.detach().clone(),g_right.detach().clone(),t_left.detach().clone(),t_right.detach().clone(),u.detach().clone()); return w_left-w_right
for static in (False,True):
    ns=tp.samplers.GridSampler(Xi,3)
    if static: ns=ns.make_static()
    pc=tp.conditions.PeriodicCondition(m2,I,pres,non_periodic_sampler=ns,data_functions={'g':lambda t,u: t+100*u})
    tryit(f"periodic static={static}", lambda: pc().item())
    gl,gr,tl,tr,u=plog['g']
    print("  left ok:",torch.allclose(gl,tl+100*u) if gl.shape==tl.shape else gl.shape,"right ok:",torch.allclose(gr,tr+100*u) if gr.shape==tr.shape else gr.shape, "same dict:", pc.left_data_functions is pc.right_data_functions)
# joined parameter
pa=tp.models.Parameter(1.0,tp.spaces.R1('a')); pb=tp.models.Parameter(2.0,tp.spaces.R1('b'))
tryit("joined param cond", lambda: tp.conditions.PINNCondition(model,s2,lambda u,a,b: u*a*b, parameter=pa.join(pb)))
# adaptive sampler in condition
ad=tp.samplers.AdaptiveThresholdRejectionSampler(sq,0.5,n_points=8)
ca=tp.conditions.PINNCondition(model,ad,lambda u: u)
tryit("adaptive cond 3 calls", lambda: [ca().item() for _ in range(3)])
