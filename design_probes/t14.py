import warnings, torch, math, random
warnings.filterwarnings("ignore")
import torchphysics as tp
X=tp.spaces.R2('x'); rnd=random.Random(3)
mx=0; mx1=0
for it in range(3000):
    o=[rnd.uniform(-4,4),rnd.uniform(-4,4)]
    a=[rnd.uniform(-3,3),rnd.uniform(-3,3)]; b=[rnd.uniform(-3,3),rnd.uniform(-3,3)]
    la=math.hypot(*a); lb=math.hypot(*b); cr=a[0]*b[1]-a[1]*b[0]
    if not(0.5<=la<=3 and 0.5<=lb<=3) or abs(cr)/(la*lb)<math.sin(math.radians(25)): continue
    P=tp.domains.Parallelogram(X,o,[o[0]+a[0],o[1]+a[1]],[o[0]+b[0],o[1]+b[1]])
    p=P.boundary.sample_random_uniform(n=400)
    origin,_,_,d1,d2=P._construct_parallelogram()
    bx,by=P._solve_lgs(p.as_tensor-origin,d1,d2)
    near0=torch.minimum(bx.abs(),by.abs()); near1=torch.minimum((bx-1).abs(),(by-1).abs())
    d=torch.minimum(near0,near1)  # distance of the closest bary coord to {0,1}
    mx=max(mx,d.max().item())
print("max |bary - {0,1}| on own boundary samples in envelope:",mx)
