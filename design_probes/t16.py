import warnings, torch, copy, logging
warnings.filterwarnings("ignore")
import pytorch_lightning as pl, torchphysics as tp
torch.set_num_threads(1)
X=tp.spaces.R2('x'); U=tp.spaces.R1('u'); T=tp.spaces.R1('t')
sq=tp.domains.Parallelogram(X,[0,0],[1,0],[0,1])
def build(valgrad=True):
    torch.manual_seed(3)
    model=tp.models.FCN(X,U,hidden=(6,))
    c1=tp.conditions.PINNCondition(model,tp.samplers.GridSampler(sq,16).make_static(),lambda u,x: tp.utils.laplacian(u,x)-1.0,name='pde')
    v=tp.conditions.PINNCondition(model,tp.samplers.GridSampler(sq,9).make_static(),(lambda u,x: tp.utils.grad(u,x)) if valgrad else (lambda u:u),name='v',track_gradients=valgrad)
    return tp.solver.Solver([c1],[v],optimizer_setting=tp.OptimizerSetting(torch.optim.Adam,lr=1e-2)),model
def tr(**kw): return pl.Trainer(max_steps=4,accelerator='cpu',devices=1,logger=False,enable_checkpointing=False,enable_progress_bar=False,enable_model_summary=False,num_sanity_val_steps=0,val_check_interval=2,**kw)
for kw in ({},{'inference_mode':False}):
    s,m=build(True)
    try:
        tr(**kw).fit(s); print("val with grad",kw,"OK grad enabled after:",torch.is_grad_enabled())
    except Exception as e: print("val with grad",kw,"EXC",type(e).__name__,str(e)[:120])
# repeated fits same process reproducible
outs=[]
for i in range(2):
    s,m=build(False); tr().fit(s); outs.append(torch.cat([p.flatten() for p in m.parameters()]).clone())
print("repeat fit identical:",torch.equal(outs[0],outs[1]))
# deepcopy of domains and conditions
C=tp.domains.Circle(X,lambda t: torch.cat([t,t],1),lambda t: t+1)-tp.domains.Circle(X,[0,0],0.3)
C2=copy.deepcopy(C); print("deepcopy domain ok", C2.necessary_variables, C2.domain_a.center is not C.domain_a.center)
d={'f':lambda x: x[:,:1]}
cond=tp.conditions.PINNCondition(m,tp.samplers.RandomUniformSampler(sq,5),lambda u,f:u-f,data_functions=d)
cc=copy.deepcopy(cond); print("deepcopy condition ok", cc.module is not cond.module)
