import warnings, torch, math, time, hashlib
warnings.filterwarnings("ignore")
import torchphysics as tp
X=tp.spaces.R2('x'); T=tp.spaces.R1('t'); U=tp.spaces.R1('u')
# RNG seam by monkeypatching
calls=[]
_rand=torch.rand; _rl=torch.rand_like; _rp=torch.randperm
gen=torch.Generator().manual_seed(42)
def sim_rand(*size, **kw):
    import sys
    f=sys._getframe(1); calls.append(("rand",f.f_code.co_name,tuple(size[0]) if len(size)==1 and not isinstance(size[0],int) else size))
    kw.pop('generator',None)
    return _rand(*size, generator=gen, **kw)
torch.rand=sim_rand
C=tp.domains.Circle(X,[0,0],lambda t: t+1); C2=tp.domains.Circle(X,[0.5,0],0.5)
par=tp.spaces.Points(torch.tensor([[0.0],[1.0],[2.0]]),T)
s=tp.samplers.RandomUniformSampler(C-C2, n_points=7)
p=s.sample_points(par)
print(p.as_tensor.shape, p.space, calls[:6], len(calls))
# pairing check
print("params col:", p.as_tensor[:,2].tolist())
# timing: many small sampling calls
torch.rand=_rand
t0=time.time(); n=0
sq=tp.domains.Parallelogram(X,[0,0],[1,0],[0,1])
for i in range(2000):
    (sq-C2).sample_random_uniform(n=50); n+=1
print("cut sampling calls/s", n/(time.time()-t0))
t0=time.time()
for i in range(2000): sq.sample_random_uniform(n=50)
print("prim sampling calls/s", 2000/(time.time()-t0))
t0=time.time(); p=C2.sample_random_uniform(n=400000); print("400k circle", time.time()-t0)
# filter + params grid sampler
def filt(x): return x[:,0]<=0.5
for S in (tp.samplers.GridSampler, tp.samplers.RandomUniformSampler):
    for dom in (sq, C):
        try:
            s=S(dom,n_points=11,filter_fn=filt); q=s.sample_points(par if dom is C else tp.spaces.Points.empty())
            print(S.__name__, type(dom).__name__, q.as_tensor.shape, bool((q.as_tensor[:,0]<=0.5).all()))
        except Exception as e: print(S.__name__, type(dom).__name__, "EXC", type(e).__name__, str(e)[:120])
# static sampler history
ss=tp.samplers.RandomUniformSampler(sq,3).make_static(resample_interval=3)
hist=[hashlib.md5(ss.sample_points().as_tensor.numpy().tobytes()).hexdigest()[:4] for _ in range(10)]
print("static interval 3:",hist)
ss=tp.samplers.RandomUniformSampler(sq,3).make_static(resample_interval=1)
print("static interval 1:",[hashlib.md5(ss.sample_points().as_tensor.numpy().tobytes()).hexdigest()[:4] for _ in range(4)])
# product samplers
ps=tp.samplers.GridSampler(sq,4)*tp.samplers.GridSampler(tp.domains.Interval(T,0,1),3)
q=ps.sample_points(); print("grid product",q.as_tensor.shape,len(ps), q.as_tensor[:,2].tolist())
ps=tp.samplers.RandomUniformSampler(C,4)*tp.samplers.GridSampler(tp.domains.Interval(T,0,1),3)
q=ps.sample_points(); print("dep product",q.as_tensor.shape, (q.as_tensor[:,:2].norm(dim=1)<=q.as_tensor[:,2]+1).all().item())
ps=tp.samplers.RandomUniformSampler(sq,4)+tp.samplers.GridSampler(sq,3)
print("concat",ps.sample_points().as_tensor.shape,len(ps))
ps=tp.samplers.RandomUniformSampler(sq,4).append(tp.samplers.GridSampler(tp.domains.Interval(T,0,1),4))
print("append",ps.sample_points().as_tensor.shape,len(ps))
# density samplers len
ds=tp.samplers.RandomUniformSampler(sq,density=10)
try: len(ds)
except Exception as e: print("len before:",type(e).__name__)
print(len(ds.sample_points()), len(ds))
