import warnings, torch, math
warnings.filterwarnings("ignore")
import torchphysics as tp
X=tp.spaces.R2('x'); T=tp.spaces.R1('t'); S=tp.spaces.R1('s'); U=tp.spaces.R1('u')
def tryit(name, f):
    try:
        r=f(); print("OK  ",name, r)
    except Exception as e:
        print("EXC ",name, type(e).__name__, str(e)[:160].replace("\n"," "))
C=tp.domains.Circle(X,lambda t: torch.cat([t,0*t],1), lambda s: s+1)
tv=torch.tensor([[0.5]]); sv=torch.tensor([[1.0]])
tryit("circle nec", lambda: C.necessary_variables)
Ct=C(t=tv); tryit("C(t) nec", lambda: Ct.necessary_variables)
Cts=Ct(s=sv); tryit("C(t)(s) nec", lambda: Cts.necessary_variables)
tryit("C(t)(s) vol", lambda: (Cts.volume().item(), math.pi*4))
tryit("C(t)(s) bbox", lambda: Cts.bounding_box().tolist())
tryit("C bbox params", lambda: C.bounding_box(tp.spaces.Points(torch.tensor([[0.5,1.0]]),T*S)).tolist())
tryit("orig unchanged nec", lambda: C.necessary_variables)
q=tp.spaces.Points(torch.tensor([[0.5,1.9],[2.6,0.0],[0.5,0.0]]),X)
tryit("contains eval", lambda: Cts._contains(q).flatten().tolist())
tryit("contains params", lambda: C._contains(q, tp.spaces.Points(torch.tensor([[0.5,1.0]]*3),T*S)).flatten().tolist())
# python float values
tryit("C(t=0.5 float)", lambda: C(t=0.5))
# par
P=tp.domains.Parallelogram(X,lambda t: torch.cat([t,t],1),lambda t: torch.cat([t+1,t],1),lambda t: torch.cat([t,t+2],1))
Pt=P(t=tv); tryit("P(t) vol,bbox", lambda: (Pt.volume().item(), Pt.bounding_box().tolist()))
# ops
D=(C-P); tryit("cut nec", lambda: D.necessary_variables)
Dt=D(t=tv); tryit("cut(t) nec", lambda: Dt.necessary_variables)
tryit("cut(t)(s) sample", lambda: len(Dt(s=sv).sample_random_uniform(n=5)))
tryit("cut(t).boundary(s) sample", lambda: len(Dt.boundary(s=sv).sample_random_uniform(n=5)))
# product partial
I=tp.domains.Interval(T,0,1)
PD=C*I
tryit("prod nec", lambda: PD.necessary_variables)
tryit("prod(s) nec", lambda: PD(s=sv).necessary_variables)
tryit("prod(t) ", lambda: PD(t=tv))
tryit("prod(t) sample", lambda: PD(t=tv).sample_random_uniform(n=3).as_tensor)
# translate/rotate partial
Tr=tp.domains.Translate(tp.domains.Circle(X,[0,0],1.0), lambda t: torch.cat([t,t],1))
tryit("translate(t) contains", lambda: Tr(t=tv)._contains(tp.spaces.Points(torch.tensor([[0.5,0.5],[3.0,3.0]]),X)).flatten().tolist())
tryit("translate(t) bbox", lambda: Tr(t=tv).bounding_box().tolist())
tryit("translate(t) sample", lambda: Tr(t=tv).sample_random_uniform(n=4).as_tensor.shape)
R=tp.domains.Rotate.from_angles(tp.domains.Parallelogram(X,[0,0],[1,0],[0,1]), lambda t: t*math.pi)
tryit("rotate(t) sample", lambda: R(t=tv).sample_random_uniform(n=4).as_tensor.tolist())
tryit("rotate params sample", lambda: R.sample_random_uniform(n=4,params=tp.spaces.Points(tv,T)).as_tensor.tolist())
# user volume lost?
Cv=tp.domains.Circle(X,[0,0],lambda t: t+1); Cv.set_volume(lambda t: 7*t)
tryit("set_volume then call", lambda: (Cv.volume(tp.spaces.Points(tv,T)).item(), Cv(t=tv).volume().item()))
