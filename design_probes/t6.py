import warnings, torch, math
warnings.filterwarnings("ignore")
import torchphysics as tp
from torchphysics.problem.domains.domain2D.shapely_polygon import ShapelyPolygon
X=tp.spaces.R2('x'); T=tp.spaces.R1('t')
torch.manual_seed(1)
# C06/C05 tolerance: slanted parallelogram / triangle boundary: normals NaN? contains own samples?
import random
random.seed(0)
tot=0; nan=0; notin=0; notunit=0
for trial in range(200):
    o=[random.uniform(-5,5),random.uniform(-5,5)]
    a=[random.uniform(0.2,3),random.uniform(-2,2)]; b=[random.uniform(-2,2),random.uniform(0.2,3)]
    c1=[o[0]+a[0],o[1]+a[1]]; c2=[o[0]+b[0],o[1]+b[1]]
    if a[0]*b[1]-a[1]*b[0] < 0.2: continue
    for D in (tp.domains.Parallelogram(X,o,c1,c2), tp.domains.Triangle(X,o,c1,c2)):
        p=D.boundary.sample_random_uniform(n=200)
        nrm=D.boundary.normal(p)
        inn=D.boundary._contains(p)
        tot+=200; nan+=int(torch.isnan(nrm).any(dim=1).sum()); notin+=int((~inn.bool()).sum())
        notunit+=int(((nrm.norm(dim=1)-1).abs()>1e-4).sum())
print("par/tri boundary: total",tot,"nan normals",nan,"own samples rejected by boundary contains",notin,"non-unit",notunit)
# circle boundary own samples
tot=0; notin=0
for trial in range(100):
    C=tp.domains.Circle(X,[random.uniform(-50,50),random.uniform(-50,50)],random.uniform(0.1,5))
    p=C.boundary.sample_random_uniform(n=200); notin+=int((~C.boundary._contains(p)).sum()); tot+=200
print("circle boundary own samples rejected",notin,"/",tot)
# overlapping union uniformity
A=tp.domains.Parallelogram(X,[0,0],[1,0],[0,1]); B=tp.domains.Parallelogram(X,[0.5,0],[1.5,0],[0.5,1])
p=(A+B).sample_random_uniform(n=200000).as_tensor
inA=(p[:,0]<=1).float().mean().item(); print("overlap union: frac in A",inA,"expected",1/1.5, " frac x>1",1-inA,"expected",0.5/1.5)
p=(A+B).sample_random_uniform(d=100000).as_tensor
print("overlap union density: frac in A",(p[:,0]<=1).float().mean().item(), "count",len(p),"expected ~150000")
# shapely L-shape uniformity
sp=ShapelyPolygon(X, vertices=[[0,0],[2,0],[2,1],[1,1],[1,2],[0,2]])
p=sp.sample_random_uniform(n=100000).as_tensor
cells=[((p[:,0]<1)&(p[:,1]<1)).float().mean().item(), ((p[:,0]>=1)&(p[:,1]<1)).float().mean().item(), ((p[:,0]<1)&(p[:,1]>=1)).float().mean().item()]
print("L-shape thirds",cells, "n",len(p))
sq=ShapelyPolygon(X, vertices=[[0,0],[1,0],[1,1],[0,1]])
cnt=0
for i in range(2000):
    q=sq.sample_random_uniform(n=1).as_tensor
    cnt+= int(q[0,0]>q[0,1])
print("shapely square n=1 lower-right-triangle fraction",cnt/2000)
