import warnings, torch, math, itertools, collections, sys, signal
warnings.filterwarnings("ignore")
import torchphysics as tp
torch.set_num_threads(1)
X=tp.spaces.R2('x'); X1=tp.spaces.R1('x'); X3=tp.spaces.R3('x'); T=tp.spaces.R1('t')
def c2(a,b): return lambda t: torch.cat([a+0*t, b+0*t],1)
def prim(kind,dep):
    if kind=='interval':
        return (tp.domains.Interval(X1,(lambda t: -1+0.1*t) if dep else -1.0, 2.0),1)
    if kind=='circle':
        return (tp.domains.Circle(X,[0.3,-0.2],(lambda t: 1.5+0.2*t) if dep else 1.5),2)
    if kind=='par':
        return (tp.domains.Parallelogram(X,(lambda t: torch.cat([-1+0.1*t,-1+0*t],1)) if dep else [-1.,-1.],[1.5,-0.5],[-0.5,1.2]),2)
    if kind=='tri':
        return (tp.domains.Triangle(X,(lambda t: torch.cat([-1+0.1*t,-1+0*t],1)) if dep else [-1.,-1.],[1.5,-0.5],[-0.5,1.2]),2)
    if kind=='sphere':
        return (tp.domains.Sphere(X3,[0.1,0.2,0.3],(lambda t: 1.2+0.1*t) if dep else 1.2),3)
def partner(dim):
    if dim==1: return tp.domains.Interval(X1,0.0,3.0)
    if dim==2: return tp.domains.Circle(X,[0.8,0.5],1.0)
    return tp.domains.Sphere(X3,[0.8,0.5,0.2],1.0)
def wrap(D,dim,w):
    if w=='none': return D
    if w=='boundary': return D.boundary
    if w=='trans_c': return tp.domains.Translate(D,[0.5]*dim if dim>1 else 0.5)
    if w=='trans_f': return tp.domains.Translate(D,(lambda t: torch.cat([0.1*t]*dim,1)))
    if w=='rot_c': return tp.domains.Rotate.from_angles(D,0.7) if dim==2 else None
    if w=='rot_f': return tp.domains.Rotate.from_angles(D,lambda t: 0.7+0.1*t) if dim==2 else None
def ctx(D,dim,c,bnd):
    P=partner(dim)
    if c=='none': E=D
    elif c=='+': E=D+P
    elif c=='-': E=D-P
    elif c=='&': E=D&P
    return E.boundary if bnd else E
class TO(Exception): pass
def handler(s,f): raise TO()
signal.signal(signal.SIGALRM,handler)
res=collections.OrderedDict()
def run(name,f,expect):
    signal.alarm(10)
    try:
        p=f(); n=len(p); st='ok' if (expect is None or n==expect) else f'rows {n}!={expect}'
        if len(p.as_tensor.shape)!=2: st=f'shape {tuple(p.as_tensor.shape)}'
        elif not torch.isfinite(p.as_tensor).all(): st='nonfinite'
    except TO: st='TIMEOUT'
    except Exception as e: st='EXC '+type(e).__name__+': '+str(e)[:60].replace('\n',' ')
    finally: signal.alarm(0)
    res[name]=st
for kind in ('interval','circle','par','tri','sphere'):
  for dep in (False,True):
    D0,dim=prim(kind,dep)
    for w in ('none','trans_c','trans_f','rot_c','rot_f'):
      D1=wrap(D0,dim,w)
      if D1 is None: continue
      for c in ('none','+','-','&'):
        if c!='none' and w!='none': continue   # keep census small: ops on bare primitives, wrappers on bare primitives
        for bnd in (False,True):
          try: E=ctx(D1,dim,c,bnd)
          except Exception as e: res[f'{kind}|dep={dep}|{w}|{c}|bnd={bnd}|construct']='EXC '+type(e).__name__; continue
          needs_t = dep or w in ('trans_f','rot_f')
          for k in ((1,2) if needs_t else (0,1,2)):
            par=tp.spaces.Points(torch.linspace(0,1,k).reshape(-1,1),T) if k else tp.spaces.Points.empty()
            for n in (1,7):
              base=f'{kind}|dep={dep}|{w}|{c}|bnd={bnd}|k={k}|n={n}'
              e=n*max(k,1)
              run(base+'|dom.rand', lambda: E.sample_random_uniform(n=n,params=par), e)
              run(base+'|dom.grid', lambda: E.sample_grid(n=n,params=par), e)
              run(base+'|S.rand', lambda: tp.samplers.RandomUniformSampler(E,n).sample_points(par), e)
              run(base+'|S.grid', lambda: tp.samplers.GridSampler(E,n).sample_points(par), e)
              if not bnd and c=='none' and w=='none':
                  run(base+'|S.lhs', lambda: tp.samplers.LHSSampler(E,n).sample_points(par), e)
                  mean=[0.0]*dim
                  run(base+'|S.gauss', lambda: tp.samplers.GaussianSampler(E,n,mean=mean,std=0.5).sample_points(par), e)
            if k<=1:
              base=f'{kind}|dep={dep}|{w}|{c}|bnd={bnd}|k={k}|d=5'
              run(base+'|dom.rand', lambda: E.sample_random_uniform(d=5.0,params=par), None)
              run(base+'|dom.grid', lambda: E.sample_grid(d=5.0,params=par), None)
              run(base+'|S.rand', lambda: tp.samplers.RandomUniformSampler(E,density=5.0).sample_points(par), None)
              run(base+'|S.grid', lambda: tp.samplers.GridSampler(E,density=5.0).sample_points(par), None)
bad={k:v for k,v in res.items() if v!='ok'}
print("cases",len(res),"bad",len(bad))
# group bad by coarse signature
grp=collections.Counter()
ex={}
for k,v in bad.items():
    parts=k.split('|'); sig=(parts[2],parts[3],parts[4],parts[5] if 'k=' in parts[5] else '',parts[-1],v[:50])
    grp[sig]+=1; ex.setdefault(sig,k)
for sig,cnt in sorted(grp.items(), key=lambda x:-x[1]): print(cnt,sig,'e.g.',ex[sig])
