import warnings, torch, math
warnings.filterwarnings("ignore")
import torchphysics as tp
from torchphysics.problem.spaces import FunctionSpace
T=tp.spaces.R1('t'); K=tp.spaces.R1('k'); E=tp.spaces.R1('e'); U=tp.spaces.R2('u')
torch.manual_seed(0)
inter=tp.domains.Interval(T,0,1); pk=tp.domains.Interval(K,0,1)
fs=FunctionSpace(inter,E)
fsA=tp.domains.CustomFunctionSet(fs, tp.samplers.GridSampler(pk,4), lambda k,t: k*t)
fsB=tp.domains.CustomFunctionSet(fs, tp.samplers.GridSampler(pk,4), lambda k,t: 100+k*t)
def mk(copied):
    trunk=tp.models.FCTrunkNet(T,hidden=(5,5),trunk_input_copied=copied)
    branch=tp.models.FCBranchNet(fs, tp.samplers.GridSampler(inter,6).make_static(), hidden=(5,))
    return tp.models.DeepONet(trunk,branch,U,output_neurons=8)
net=mk(True)
# stale-cache history: A, B, then a third condition using fsA in same iteration
seen={}
def mkres(tag):
    def res(u,e): seen[tag]=e.detach().clone(); return u[...,:1]-e
    return res
xs=tp.samplers.GridSampler(inter,3).make_static()
cA=tp.conditions.PIDeepONetCondition(net,fsA,xs,mkres('A'),name='A')
cB=tp.conditions.PIDeepONetCondition(net,fsB,xs,mkres('B'),name='B')
cC=tp.conditions.PIDeepONetCondition(net,fsA,xs,mkres('C'),name='C')
outs={}
for it in range(2):
    for nm,c in (('A',cA),('B',cB),('C',cC)):
        l=c(iteration=it); outs[(it,nm)]=(l.item(), net.branch.current_out.detach().clone())
print("lossA==lossC (same fn set, same points, same net)?", outs[(0,'A')][0], outs[(0,'C')][0])
print("branch features used by C equal A's?", torch.equal(outs[(0,'A')][1],outs[(0,'C')][1]), " equal B's?", torch.equal(outs[(0,'B')][1],outs[(0,'C')][1]))
# validation style: iteration None
vA=tp.conditions.PIDeepONetCondition(net,fsA,xs,mkres('vA'),name='vA')
l1=vA().item(); cB(iteration=5); l2=vA().item(); print("val cond repeat w/ other cond in between:",l1,l2)
# fast path equivalence
net1=mk(True); net2=mk(False); net2.load_state_dict(net1.state_dict())
x=torch.rand(3,1,requires_grad=True); xb=x.unsqueeze(0).repeat(4,1,1)
net1.fix_branch_input(fsA); net2.fix_branch_input(fsA)
xb1=xb.clone().detach().requires_grad_(True); xb2=xb.clone().detach().requires_grad_(True)
y1=net1(tp.spaces.Points(xb1,T)).as_tensor; y2=net2(tp.spaces.Points(xb2,T)).as_tensor
print("fast==plain out", torch.allclose(y1,y2,atol=1e-6), y1.shape)
g1=torch.autograd.grad(y1.sum(),xb1,create_graph=True)[0]; g2=torch.autograd.grad(y2.sum(),xb2,create_graph=True)[0]
print("first deriv", torch.allclose(g1,g2,atol=1e-6))
h1=torch.autograd.grad(g1.sum(),xb1,create_graph=True)[0]; h2=torch.autograd.grad(g2.sum(),xb2,create_graph=True)[0]
print("second deriv", torch.allclose(h1,h2,atol=1e-5))
(h1**2).sum().backward(); (h2**2).sum().backward()
pg=[(n,torch.allclose(p.grad,q.grad,atol=1e-5) if p.grad is not None and q.grad is not None else (p.grad is None, q.grad is None)) for (n,p),(_,q) in zip(net1.named_parameters(),net2.named_parameters())]
print("param grads of second-deriv loss equal:",pg)
