import warnings, torch, math, os, shutil, logging
warnings.filterwarnings("ignore")
import pytorch_lightning as pl
import torchphysics as tp
torch.set_num_threads(1)
# (b) NormalizationLayer with Translate / Rotate
X=tp.spaces.R2('x'); U=tp.spaces.R1('u'); T=tp.spaces.R1('t')
C=tp.domains.Circle(X,[0,0],1.0)
for D,name in ((tp.domains.Translate(C,[2.0,3.0]),'translate'),(tp.domains.Rotate.from_angles(tp.domains.Parallelogram(X,[0,0],[2,0],[0,1]),0.7),'rotate'),(C,'circle')):
    try:
        nl=tp.models.NormalizationLayer(D); p=D.sample_random_uniform(n=2000); o=nl(p).as_tensor
        print(name,"bbox",D.bounding_box().tolist(),"normalized range",o.min().item(),o.max().item())
    except Exception as e: print(name,"EXC",type(e).__name__,str(e)[:120])
# (a) float64 training
torch.set_default_dtype(torch.float64)
sq=tp.domains.Parallelogram(X,[0,0],[1,0],[0,1])
torch.manual_seed(0)
model=tp.models.FCN(X,U,hidden=(6,))
s1=tp.samplers.RandomUniformSampler(sq,16)
c1=tp.conditions.PINNCondition(model,s1,lambda u,x: tp.utils.laplacian(u,x)-torch.sin(x[:,:1]),name='pde',weight=2.0)
print("sample dtype",s1.sample_points().as_tensor.dtype)
solver=tp.solver.Solver([c1],optimizer_setting=tp.OptimizerSetting(torch.optim.SGD,lr=1e-2))
class Crash(Exception): pass
order=[]
class Sim(pl.Callback):
    def on_train_batch_start(self,tr,m,b,i): order.append(('bs',i))
    def on_before_optimizer_step(self,tr,m,opt): order.append(('bos',tr.global_step))
    def on_train_batch_end(self,tr,m,o,b,i):
        order.append(('be',i,tr.global_step))
        if i==2: raise Crash("boom")
    def on_validation_start(self,tr,m): order.append(('vs',tr.global_step))
    def on_train_start(self,tr,m): order.append(('ts',))
    def on_train_end(self,tr,m): order.append(('te',))
    def on_exception(self,tr,m,e): order.append(('exc',type(e).__name__))
vc=tp.conditions.PINNCondition(model,tp.samplers.GridSampler(sq,4).make_static(),lambda u: u,name='val',track_gradients=False)
solver=tp.solver.Solver([c1],[vc],optimizer_setting=tp.OptimizerSetting(torch.optim.SGD,lr=1e-2))
tr=pl.Trainer(max_steps=5,accelerator='cpu',devices=1,logger=False,enable_checkpointing=False,enable_progress_bar=False,enable_model_summary=False,num_sanity_val_steps=0,callbacks=[Sim()],val_check_interval=2)
try: tr.fit(solver)
except Crash as e: print("crashed ok")
print(order)
print("param dtype",next(model.parameters()).dtype)
