#!/bin/bash
# runs the repository's baseline suite and compares with BASELINE.json's stable set
cd /repo && /venv/bin/python -m pytest -q -p no:cacheprovider --timeout=900 --continue-on-collection-errors --junitxml=/dev/shm/base.xml > /dev/shm/base.log 2>&1
/venv/bin/python - <<'P'
import json, xml.etree.ElementTree as ET
d=json.load(open('/root/.vp/BASELINE.json'))
root=ET.parse('/dev/shm/base.xml').getroot()
passed=set()
for tc in root.iter('testcase'):
    if not any(ch.tag in ('failure','error','skipped') for ch in tc):
        passed.add(tc.get('classname')+'::'+tc.get('name'))
want=set(d['stable_pass'])
missing=sorted(want-passed)
print("stable_pass", len(want), "passing now", len(want&passed), "missing", missing[:10])
P
