"""deeponetsim -- histories of fix/forward operations on a DeepONet (C09).

``BranchNet.current_out`` is written by fix_input / branch(...) and read by every
later forward, so the output depends on the operation history.  Oracle: the
explicit inner product of independently computed branch and trunk features of
the *most recently fixed* function(s), invariance under permuting/sub-setting
the batches, equality across input kinds, and R-twin (same weights,
trunk_input_copied=False): equal outputs, first/second input derivatives and
parameter gradients.
"""
import math
import traceback
import warnings

import torch

from .core.simrng import SimRNG
from .geosim import viol, innermost_site

warnings.filterwarnings("ignore")


def _fun(spec):
    """Callable of the function variable 's' (tensor (D,1)) -> (D, e)."""
    a, b, c, e = spec["a"], spec["b"], spec["c"], spec["e"]
    if e == 1:
        return lambda s: a * torch.sin(b * s) + c
    return lambda s: torch.cat([a * torch.sin(b * s) + c, a * s * s - c], dim=1)


def build(case, copied):
    import torchphysics as tp
    from torchphysics.models.deeponet.branchnets import FCBranchNet, ConvBranchNet1D
    from torchphysics.models.deeponet.trunknets import FCTrunkNet
    from torchphysics.models.deeponet.deeponet import DeepONet
    torch.manual_seed(case["init"])
    d = case["trunk_dim"]
    Tsp = tp.spaces.R1("t") if d == 1 else tp.spaces.R2("t")
    if case.get("tvars"):
        # a trunk space of several named variables (declared order); the inputs may arrive in another order
        Tsp = None
        for v, dv in case["tvars"]:
            Tsp = tp.spaces.R1(v) if Tsp is None else Tsp * tp.spaces.R1(v)
    S = tp.spaces.R1("s")
    E = tp.spaces.R1("e") if case["e"] == 1 else tp.spaces.R2("e")
    U = {1: tp.spaces.R1("u"), 2: tp.spaces.R2("u"), 3: tp.spaces.R3("u")}[case["u"]]
    inter = tp.domains.Interval(S, 0, 1)
    fspace = tp.spaces.FunctionSpace(inter, E)
    disc = tp.samplers.GridSampler(inter, case["D"]).make_static()
    A = {"tanh": torch.nn.Tanh, "sigmoid": torch.nn.Sigmoid, "softplus": torch.nn.Softplus, "silu": torch.nn.SiLU}

    def akw(names, gains):
        # per-layer activation / gain lists (None: the library's single default activation)
        kw = {}
        if names:
            kw["activations"] = [A[n]() for n in names]
        if gains:
            kw["xavier_gains"] = list(gains)
        return kw
    if case["branch"] == "fc":
        branch = FCBranchNet(fspace, disc, hidden=tuple(case["bhidden"]), **akw(case.get("bacts"), case.get("bgains")))
    else:
        conv = torch.nn.Sequential(torch.nn.Conv1d(case["e"], 2, 3, padding=1), torch.nn.Tanh(),
                                   torch.nn.Conv1d(2, case["e"], 3, padding=1))
        branch = ConvBranchNet1D(fspace, disc, conv, hidden=tuple(case["bhidden"]))
    trunk = FCTrunkNet(Tsp, hidden=tuple(case["thidden"]), trunk_input_copied=copied,
                       **akw(case.get("tacts"), case.get("tgains")))
    if case.get("norm_layer"):
        dom = tp.domains.Interval(Tsp, -1.0, 3.0) if d == 1 else tp.domains.Parallelogram(Tsp, [-1, -1], [3, -1], [-1, 3])
        trunk_full = tp.models.Sequential(tp.models.NormalizationLayer(dom), trunk)
    else:
        trunk_full = trunk
    net = DeepONet(trunk_full, branch, U, output_neurons=case["m"] * case["u"])
    return net, dict(T=Tsp, S=S, E=E, U=U, inter=inter, fspace=fspace, disc=disc)


def function_set(case, sp, specs):
    """CustomFunctionSet(s) describing the given list of function specs."""
    import torchphysics as tp
    K = tp.spaces.R1("k")
    # parameter k enumerates the functions: k = index
    n = len(specs)
    A = torch.tensor([[s["a"], s["b"], s["c"]] for s in specs], dtype=torch.float32)
    data = tp.samplers.DataSampler({"k": torch.arange(n, dtype=torch.float32).reshape(-1, 1)})

    def f(k, s):
        idx = k.long().squeeze(-1)
        a, b, c = A[idx][..., 0:1], A[idx][..., 1:2], A[idx][..., 2:3]
        if case["e"] == 1:
            return a * torch.sin(b * s) + c
        return torch.cat([a * torch.sin(b * s) + c, a * s * s - c], dim=-1)
    return tp.domains.CustomFunctionSet(sp["fspace"], data, f)


def collection(case, sp, specs, parts=2):
    """The same functions as a sum of `parts` function sets of unequal sizes."""
    parts = max(1, min(int(parts), len(specs)))
    if parts == 1:
        return function_set(case, sp, specs)
    # unequal contiguous chunks: the first gets the remainder
    base = len(specs) // parts
    sizes = [base + (len(specs) - base * parts)] + [base] * (parts - 1)
    res, j = None, 0
    for sz in sizes:
        fs = function_set(case, sp, specs[j:j + sz])
        res = fs if res is None else res + fs
        j += sz
    return res


def tpoints(case, sp, x):
    """Trunk input as Points: columns of x are in the DECLARED order; they are handed over in the order case['tin']."""
    import torchphysics as tp
    if not case.get("tvars"):
        return tp.spaces.Points(x, sp["T"])
    names = [v for v, _ in case["tvars"]]
    order = case.get("tin") or names
    space = None
    for v in order:
        space = tp.spaces.R1(v) if space is None else space * tp.spaces.R1(v)
    return tp.spaces.Points(x[..., [names.index(v) for v in order]], space)


def disc_values(case, sp, specs):
    """Our own discretisation: (F, D, e) tensor of the functions at the sampler's points."""
    pts = sp["disc"].sample_points().as_tensor  # (D,1) static grid
    return torch.stack([_fun(dict(s, e=case["e"]))(pts) for s in specs], dim=0)


def branch_features(net, case, disc):
    """B[i, c, m] computed outside the DeepONet forward."""
    F = disc.shape[0]
    b = net.branch
    if case["branch"] == "fc":
        o = b.sequential(disc.reshape(F, -1))
    else:
        x = b.conv_net(disc.transpose(1, 2))          # (F, e, D)
        o = b.sequential(x.transpose(1, 2).reshape(F, -1))
    return o.reshape(F, case["u"], case["m"])


def trunk_features(twin, case, x):
    """T[j, c, m] computed outside the trunk's forward: the plain twin's layer stack applied to the coordinates in
    the DECLARED variable order (x holds them in that order), after our own normalisation where the trunk has a
    NormalizationLayer in front (box [-1, 3] in every coordinate: (x - 1) / 2)."""
    tr = twin.trunk.models[-1] if hasattr(twin.trunk, "models") else twin.trunk
    z = (x - 1.0) / 2.0 if case.get("norm_layer") else x
    o = tr.sequential(z)
    return o.reshape(len(x), case["u"], case["m"])


def run_c09(case):
    import torchphysics as tp
    out, stats, log = [], {}, []
    sim = SimRNG(case["rng"], fault=None)
    with sim:
        try:
            net, sp = build(case, True)
            twin, sp2 = build(case, False)
            missing = twin.load_state_dict(net.state_dict(), strict=True)
            current = None      # specs of the most recently fixed function(s)
            last_tensor_arg = None
            fsets = {}          # persistent function-set objects of the training path (one per pool entry)
            for op in case["history"]:
                kind = op["op"]
                if kind == "train":
                    # the training path: DeepONet conditions hand a function set and the step number to
                    # _forward_branch and then call the network without branch inputs; several conditions may
                    # share the network with different (or the same) function sets within one step
                    s_ = op["set"]
                    specs = [dict(q, e=case["e"]) for q in case["train_sets"][s_]]
                    if s_ not in fsets:
                        fsets[s_] = function_set(case, sp, specs)
                    net._forward_branch(fsets[s_], iteration_num=op["it"])
                    twin.fix_branch_input(function_set(case, sp2, specs))
                    current = specs
                    stats["train_branch_calls"] = stats.get("train_branch_calls", 0) + 1
                    log.append(["train", "set%d" % s_, op["it"]])
                    continue
                if kind == "fix" or (kind == "forward" and op.get("with_branch")):
                    specs = [dict(s, e=case["e"]) for s in op["specs"]]
                    how = op["how"]
                    dv = disc_values(case, sp, specs)
                    if how == "callable":
                        specs = specs[:1]
                        dv = dv[:1]
                        arg = _fun(specs[0])
                    elif how == "tensor2d":
                        specs, dv = specs[:1], dv[:1]
                        arg = dv[0].clone()
                    elif how == "tensor3d":
                        arg = dv.clone()
                    elif how == "points":
                        arg = tp.spaces.Points(dv.clone(), sp["E"])
                    elif how == "functionset":
                        arg = function_set(case, sp, specs)
                    else:
                        arg = collection(case, sp, specs, op.get("parts", 2))
                    if kind == "forward" and op.get("reuse") and last_tensor_arg is not None:
                        # the SAME object as in the previous forward(..., branch_inputs=...) call, modified in place in
                        # between (users refill one buffer): the branch must see the current content
                        arg, old_specs, old_how = last_tensor_arg
                        f_ = float(op.get("scale", 1.5))
                        t_ = arg._t if hasattr(arg, "_t") else arg
                        with torch.no_grad():
                            t_.mul_(f_)
                        specs = [dict(s_, a=s_["a"] * f_, c=s_["c"] * f_) for s_ in old_specs]
                        how = old_how
                        op = dict(op, how=how)
                        last_tensor_arg = (arg, specs, how)
                    elif kind == "forward" and how in ("tensor2d", "tensor3d", "points"):
                        last_tensor_arg = (arg, specs, how)
                    if kind == "fix":
                        net.fix_branch_input(arg)
                        twin.fix_branch_input(arg if how not in ("functionset", "collection") else (
                            function_set(case, sp2, specs) if how == "functionset" else
                            collection(case, sp2, specs, op.get("parts", 2))))
                        current = specs
                        log.append(["fix", how, len(specs)])
                        continue
                    branch_arg = arg
                    current = specs
                else:
                    branch_arg = None
                if current is None:
                    continue
                # ---- forward
                N = op["N"]
                g = torch.Generator().manual_seed(op["xseed"])
                x = torch.rand(N, case["trunk_dim"], generator=g) * 2.0
                F = len(current)
                layout = op.get("layout", "shared")
                xin = x if layout == "shared" else x.unsqueeze(0).repeat(F, 1, 1)
                pin = tpoints(case, sp, xin.clone())
                res = net(pin, branch_inputs=branch_arg) if branch_arg is not None else net(pin)
                o = res.as_tensor
                stats["forwards"] = stats.get("forwards", 0) + 1
                B = branch_features(net, case, disc_values(case, sp, current))
                T = trunk_features(twin, case, x)
                want = torch.einsum("icm,jcm->ijc", B, T)
                log.append(["forward", layout, F, N, bool(branch_arg is not None)])
                if list(o.shape) != [F, N, case["u"]]:
                    out.append(viol("C09", "shape", "output-shape", "", got=list(o.shape), want=[F, N, case["u"]]))
                    continue
                if not torch.allclose(o, want, rtol=1e-4, atol=1e-5):
                    out.append(viol("C09", "inner-product", "output-is-not-branch-dot-trunk-of-most-recently-fixed-function", "",
                                    max_abs=float((o - want).abs().max()), how=log[-2][1] if len(log) > 1 and log[-2][0] == "fix" else None))
                    continue
                # invariance under permuting the trunk batch
                perm = torch.randperm(N, generator=g)
                xp = x[perm] if layout == "shared" else x[perm].unsqueeze(0).repeat(F, 1, 1)
                op_ = net(tpoints(case, sp, xp.clone())).as_tensor
                if not torch.allclose(op_, o[:, perm], rtol=1e-4, atol=1e-5):
                    out.append(viol("C09", "invariance", "output-depends-on-batch-order", ""))
                # ---- the plain network (trunk_input_copied=False) on DIFFERENT locations per function: out[i, j] is
                # the inner product with the trunk features of function i's own j-th location
                if F >= 2 and op.get("distinct", True):
                    xd = torch.rand(F, N, case["trunk_dim"], generator=g) * 2.0
                    if branch_arg is not None:
                        twin.fix_branch_input(arg if op["how"] not in ("functionset", "collection") else function_set(case, sp2, current))
                    elif not stats.get("_twin_fixed"):
                        pass
                    try:
                        od = twin(tpoints(case, sp, xd.clone())).as_tensor
                        Bt = branch_features(twin, case, disc_values(case, sp2, current))
                        Td = torch.stack([trunk_features(twin, case, xd[i]) for i in range(F)], dim=0)   # (F, N, c, m)
                        wantd = torch.einsum("icm,ijcm->ijc", Bt, Td)
                        stats["distinct_location_checks"] = stats.get("distinct_location_checks", 0) + 1
                        if list(od.shape) != list(wantd.shape) or not torch.allclose(od, wantd, rtol=1e-4, atol=1e-5):
                            out.append(viol("C09", "inner-product", "plain-network-output-wrong-for-per-function-locations", "",
                                            max_abs=None if list(od.shape) != list(wantd.shape) else float((od - wantd).abs().max())))
                    except Exception as ex:
                        out.append(viol("C09", "run", "raises:" + type(ex).__name__, innermost_site(ex.__traceback__) + ":distinct",
                                        msg=str(ex)[:200]))
                # ---- R-twin: outputs, derivatives, parameter gradients
                if branch_arg is not None:
                    twin.fix_branch_input(arg if op["how"] not in ("functionset", "collection") else function_set(case, sp2, current))
                res_pair = []
                for model in (net, twin):
                    xi = (x if layout == "shared" else x.unsqueeze(0).repeat(F, 1, 1)).clone().requires_grad_(True)
                    y = model(tpoints(case, sp, xi)).as_tensor
                    g1 = torch.autograd.grad(y.sum(), xi, create_graph=True)[0]
                    g2 = torch.autograd.grad(g1.pow(2).sum() + g1.sum(), xi, create_graph=True)[0]
                    loss = (g2 ** 2).sum() + (y ** 2).sum()
                    model.zero_grad()
                    loss.backward(retain_graph=True)
                    pg = [p.grad.detach().clone() if p.grad is not None else None for p in model.parameters()]
                    res_pair.append((y.detach(), g1.detach(), g2.detach(), pg))
                # data-driven training: the trunk input does NOT require grad
                plain = []
                for model in (net, twin):
                    xi = (x if layout == "shared" else x.unsqueeze(0).repeat(F, 1, 1)).clone()
                    y = model(tpoints(case, sp, xi)).as_tensor
                    model.zero_grad()
                    ((y - 0.3) ** 2).sum().backward(retain_graph=True)
                    plain.append([p.grad.detach().clone() if p.grad is not None else None for p in model.parameters()])
                for q1, q2 in zip(*plain):
                    if (q1 is None) != (q2 is None) or (q1 is not None and not torch.allclose(q1, q2, rtol=2e-3, atol=1e-5)):
                        out.append(viol("C09", "twin", "fast-path-parameter-gradient-differs-without-input-grad", "",
                                        missing=bool(q1 is None)))
                        break
                (y1, a1, b1, p1), (y2, a2, b2, p2) = res_pair
                stats["twin_checks"] = stats.get("twin_checks", 0) + 1
                if not torch.allclose(y1, y2, rtol=1e-4, atol=1e-5):
                    out.append(viol("C09", "twin", "fast-path-output-differs", "", max_abs=float((y1 - y2).abs().max())))
                elif layout != "shared" and not torch.allclose(a1, a2, rtol=1e-3, atol=1e-4):
                    # per-function layout: the derivative w.r.t. the copy that belongs to function i is function i's
                    out.append(viol("C09", "twin", "fast-path-first-derivative-differs", "per-function",
                                    max_abs=float((a1 - a2).abs().max())))
                elif layout != "shared" and not torch.allclose(b1, b2, rtol=1e-3, atol=1e-4):
                    out.append(viol("C09", "twin", "fast-path-second-derivative-differs", "per-function",
                                    max_abs=float((b1 - b2).abs().max())))
                elif layout == "shared" and not torch.allclose(a1, a2, rtol=1e-3, atol=1e-4):
                    out.append(viol("C09", "twin", "fast-path-first-derivative-differs", "", max_abs=float((a1 - a2).abs().max())))
                elif layout == "shared" and not torch.allclose(b1, b2, rtol=1e-3, atol=1e-4):
                    out.append(viol("C09", "twin", "fast-path-second-derivative-differs", "", max_abs=float((b1 - b2).abs().max())))
                else:
                    for q1, q2 in zip(p1, p2):
                        # norm-wise: the loss is built from squared second derivatives, single entries cancel
                        if (q1 is None) != (q2 is None) or (q1 is not None and
                                                            float((q1 - q2).norm()) > 5e-3 * float(q2.norm()) + 1e-4):
                            out.append(viol("C09", "twin", "fast-path-parameter-gradient-differs", "",
                                            max_abs=None if q1 is None or q2 is None else float((q1 - q2).abs().max())))
                            break
        except Exception as ex:
            out.append(viol("C09", "run", "raises:" + type(ex).__name__, innermost_site(ex.__traceback__),
                            msg=traceback.format_exc()[-500:]))
    feats = {"cell": "%s|u%d|e%d|t%d|%s" % (case["branch"], case["u"], case["e"], case["trunk_dim"],
                                            "norm" if case.get("norm_layer") else "plain"), "faulty": False}
    rec = {"violations": out, "stats": stats, "sim": sim.summary(), "steps": len(case["history"]), "rows": None,
           "features": feats, "digest_extra": log}
    rec["nontrivial"] = stats.get("forwards", 0) > 0
    rec["key"] = "%s|%s" % (feats["cell"], "-".join("%s%s" % (l[0][:2], l[1][:3]) for l in log)[:80])
    rec["outcome"] = log[:8]
    return rec
