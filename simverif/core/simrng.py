"""SimRNG -- the randomness seam and its faults.

While installed, every ``torch.rand / rand_like / randperm / normal / randn``
call made by the library is answered from the simulator's own generator, logged
as an event (seq, kind, caller, shape), optionally passed through a *fault
transform* (every transform yields values a correct generator may legally
return) and counted against a per-operation draw budget (the deterministic
liveness bound).  A second seam sits at the acceptance decisions of the
library's rejection loops (``spurious_reject``: valid proposals are rejected for
the first k rounds of an operation -- always legal for rejection sampling).

The fault decision for draw ``seq`` is a pure function of (fault seed, seq), so a
replay is a pure function of the recorded case, and shrinking can restrict the
set of faulted draws (``only``) without shifting anything else.
"""
import hashlib
import random
import sys
from collections import Counter

import numpy as np
import torch

from .seed import H

RAND_KINDS = ("edge0", "edge1", "half", "lattice", "tie", "const", "echo")
PERM_KINDS = ("perm_identity", "perm_reverse", "perm_rotate", "perm_swap2")
NORMAL_KINDS = ("normal_zero", "normal_far")
REJECT_SITES = ("check_in_b", "apply_filter", "gauss_inside", "lhs_inside")
ALL_FAULT_KINDS = RAND_KINDS + PERM_KINDS + NORMAL_KINDS + tuple(
    "reject:" + s for s in REJECT_SITES)

_BELOW_ONE = float(np.nextafter(np.float32(1.0), np.float32(0.0)))

_ORIG = {}


class SimBudgetExceeded(RuntimeError):
    """Raised inside a draw when one library operation exceeds its budget."""


class FixedClock:
    """Stands in for the ``time`` module where the library reads a clock."""

    def __init__(self):
        self.t = 1.0e9

    def time(self):
        return self.t

    def sleep(self, s):
        self.t += s


def _save_originals():
    if _ORIG:
        return
    for name in ("rand", "rand_like", "randperm", "normal", "randn", "randn_like", "randint"):
        _ORIG[name] = getattr(torch, name)


class SimRNG:
    def __init__(self, seed, fault=None, budget_calls=3000, budget_elems=int(5e7),
                 keep_log=64):
        _save_originals()
        self.seed = int(seed)
        self.gen = torch.Generator()
        self.gen.manual_seed(self.seed % (2 ** 62))
        self.np_gen = np.random.default_rng(self.seed % (2 ** 62))
        self.fault = dict(fault) if fault else {}
        self.fault_seed = int(self.fault.get("seed", 0))
        self.rate = float(self.fault.get("rate", 0.0))
        self.kinds = tuple(self.fault.get("kinds", ()))
        only = self.fault.get("only")
        self.only = None if only is None else set(only)
        self.reject = dict(self.fault.get("reject", {}))  # site -> k rounds
        self.fault_window = int(self.fault.get("window", 24))  # faulted draws per operation
        self.seq = 0
        self.op_index = -1
        self.op_calls = 0
        self.op_elems = 0
        self.max_op_calls = 0
        self.budget_calls = budget_calls
        self.budget_elems = budget_elems
        self.log = []
        self.keep_log = keep_log
        self.fired = Counter()
        self.fired_seqs = []
        self.site_calls = Counter()
        self.site_round = Counter()
        self._prev = {}
        self._hash = hashlib.sha256()
        self._installed = []
        self.clock = FixedClock()
        self.total_elems = 0
        self.paused = 0

    # ------------------------------------------------------------------ ops
    def begin_op(self):
        self.op_index += 1
        self.max_op_calls = max(self.max_op_calls, self.op_calls)
        self.op_calls = 0
        self.op_elems = 0
        self.site_round = Counter()

    def reseed(self, seed):
        """Restart the draw stream (used to give two worlds the same draws)."""
        self.gen.manual_seed(int(seed) % (2 ** 62))
        self.np_gen = np.random.default_rng(int(seed) % (2 ** 62))

    def digest(self):
        return self._hash.hexdigest()

    # ---------------------------------------------------------------- faults
    def _decide(self, family):
        """Return (kind, rng) for the current draw or (None, None)."""
        if not self.kinds or self.rate <= 0.0:
            return None, None
        if self.only is not None and self.seq not in self.only:
            return None, None
        if self.op_calls >= self.fault_window:
            # faults stop: termination is claimed "within the budget once faults stop"
            return None, None
        r = random.Random(H(self.fault_seed, "draw", self.seq))
        if r.random() >= self.rate:
            return None, None
        cands = [k for k in self.kinds if k in family]
        if self.op_calls >= 3:
            # batch-wide faults make a whole proposal round fail; the library answers an
            # empty round by asking for 5x as many proposals, so a legal-but-probability-zero
            # run of them is bounded to the first three draws of an operation
            cands = [k for k in cands if k not in ("const", "echo")]
        if not cands:
            return None, None
        return r.choice(cands), r

    def _account(self, kind, caller, t):
        n = int(t.numel())
        self.op_calls += 1
        self.op_elems += n
        self.total_elems += n
        if len(self.log) < self.keep_log:
            self.log.append([self.seq, kind, caller, list(t.shape)])
        self._hash.update(("%d|%s|%s|%s|" % (self.seq, kind, caller, tuple(t.shape))).encode())
        self._hash.update(t.detach().cpu().contiguous().numpy().tobytes())
        self.seq += 1
        if self.op_calls > self.budget_calls or self.op_elems > self.budget_elems:
            raise SimBudgetExceeded(
                "operation %d exceeded its draw budget (%d calls, %d elements) at %s"
                % (self.op_index, self.op_calls, self.op_elems, caller))

    def _fault_rand(self, t):
        kind, r = self._decide(RAND_KINDS)
        if kind is None or t.numel() == 0:
            return t, None
        flat = t.reshape(-1)
        n = flat.numel()
        if kind in ("edge0", "edge1", "half", "lattice"):
            cnt = max(1, int(n * r.choice((0.02, 0.1, 0.3, 1.0))))
            idx = [r.randrange(n) for _ in range(min(cnt, 64))] if cnt < n else None
            if kind == "edge0":
                val = 0.0
            elif kind == "edge1":
                val = _BELOW_ONE
            elif kind == "half":
                val = 0.5
            else:
                m = r.choice((2, 3, 4, 8))
                val = None
            if idx is None:
                if val is None:
                    js = torch.tensor([r.randrange(m) for _ in range(min(n, 4096))],
                                      dtype=t.dtype)
                    js = js.repeat((n + len(js) - 1) // len(js))[:n]
                    flat.copy_((js / m).to(t.dtype))
                else:
                    flat.fill_(val)
            else:
                for i in idx:
                    flat[i] = (r.randrange(m) / m) if val is None else val
        elif kind == "tie":
            if t.dim() >= 2 and t.shape[-2] >= 2:
                a, b = r.randrange(t.shape[-2]), r.randrange(t.shape[-2])
                t[..., b, :] = t[..., a, :]
            elif n >= 2:
                a, b = r.randrange(n), r.randrange(n)
                flat[b] = flat[a]
        elif kind == "const":
            flat.fill_(float(flat[r.randrange(n)]))
        elif kind == "echo":
            p = self._prev.get((tuple(t.shape), t.dtype))
            if p is None:
                return t, None
            t.copy_(p)
        return t, kind

    def _fault_perm(self, t):
        kind, r = self._decide(PERM_KINDS)
        n = t.numel()
        if kind is None or n < 2:
            return t, None
        ar = torch.arange(n, dtype=t.dtype)
        if kind == "perm_identity":
            t = ar
        elif kind == "perm_reverse":
            t = ar.flip(0)
        elif kind == "perm_rotate":
            t = torch.roll(ar, r.randrange(1, n))
        else:
            a, b = r.sample(range(n), 2)
            t = ar.clone()
            t[a], t[b] = ar[b], ar[a]
        return t, kind

    def _fault_normal(self, t, mean, std):
        kind, r = self._decide(NORMAL_KINDS)
        if kind is None or t.numel() == 0:
            return t, None
        mean_t = torch.as_tensor(mean, dtype=t.dtype).expand_as(t)
        std_t = torch.as_tensor(std, dtype=t.dtype).expand_as(t)
        if kind == "normal_zero":
            rows = max(1, t.shape[0] // 4) if t.dim() else 1
            for _ in range(min(rows, 16)):
                i = r.randrange(t.shape[0]) if t.dim() else 0
                if t.dim():
                    t[i] = mean_t[i]
                else:
                    t.copy_(mean_t)
        else:
            for _ in range(min(max(1, t.shape[0] // 4), 16) if t.dim() else 1):
                sgn = r.choice((-6.0, 6.0))
                if t.dim():
                    i = r.randrange(t.shape[0])
                    t[i] = mean_t[i] + sgn * std_t[i]
                else:
                    t.copy_(mean_t + sgn * std_t)
        return t, kind

    def _fire(self, kind):
        if kind:
            self.fired[kind] += 1
            if len(self.fired_seqs) < 4096:
                self.fired_seqs.append(self.seq)

    # ------------------------------------------------------- patched draws
    def _rand(self, *size, generator=None, out=None, dtype=None, layout=None,
              device=None, requires_grad=False, pin_memory=False, names=None):
        if self.paused:
            return _ORIG["rand"](*size, dtype=dtype, device=device)
        if len(size) == 1 and isinstance(size[0], (tuple, list, torch.Size)):
            size = tuple(size[0])
        size = tuple(int(s) for s in size)
        caller = sys._getframe(1).f_code.co_name
        t = _ORIG["rand"](size, generator=self.gen, dtype=dtype)
        t, kind = self._fault_rand(t)
        self._fire(kind)
        self._prev[(tuple(t.shape), t.dtype)] = t.clone()
        self._account("rand", caller, t)
        if device is not None and str(device) != "cpu":
            t = t.to(device)
        return t

    def _rand_like(self, inp, dtype=None, layout=None, device=None,
                   requires_grad=False, memory_format=None):
        if self.paused:
            return _ORIG["rand_like"](inp, dtype=dtype)
        caller = sys._getframe(1).f_code.co_name
        t = _ORIG["rand"](tuple(inp.shape), generator=self.gen,
                          dtype=dtype or (inp.dtype if inp.dtype.is_floating_point else None))
        t, kind = self._fault_rand(t)
        self._fire(kind)
        self._prev[(tuple(t.shape), t.dtype)] = t.clone()
        self._account("rand_like", caller, t)
        return t

    def _randperm(self, n, generator=None, out=None, dtype=torch.int64, layout=None,
                  device=None, requires_grad=False, pin_memory=False):
        if self.paused:
            return _ORIG["randperm"](n, dtype=dtype)
        caller = sys._getframe(1).f_code.co_name
        t = _ORIG["randperm"](int(n), generator=self.gen, dtype=dtype)
        t, kind = self._fault_perm(t)
        self._fire(kind)
        self._account("randperm", caller, t)
        return t

    def _normal(self, mean, std=None, size=None, generator=None, out=None, **kw):
        if self.paused:
            if size is not None:
                return _ORIG["normal"](mean, std, size)
            return _ORIG["normal"](mean, std)
        caller = sys._getframe(1).f_code.co_name
        if caller == "sample":  # torch.distributions.Normal.sample
            caller = sys._getframe(2).f_code.co_name
        if size is not None:
            t = _ORIG["normal"](float(mean), float(std), tuple(size), generator=self.gen)
        else:
            m = torch.as_tensor(mean)
            s = torch.as_tensor(1.0 if std is None else std)
            m, s = torch.broadcast_tensors(m.float() if not m.is_floating_point() else m,
                                           s.float() if not s.is_floating_point() else s)
            t = _ORIG["normal"](m.contiguous(), s.contiguous(), generator=self.gen)
        t, kind = self._fault_normal(t, mean, 1.0 if std is None else std)
        self._fire(kind)
        self._account("normal", caller, t)
        return t

    def _randn(self, *size, generator=None, out=None, dtype=None, layout=None,
               device=None, requires_grad=False, pin_memory=False, names=None):
        if self.paused:
            return _ORIG["randn"](*size, dtype=dtype)
        if len(size) == 1 and isinstance(size[0], (tuple, list, torch.Size)):
            size = tuple(size[0])
        caller = sys._getframe(1).f_code.co_name
        t = _ORIG["randn"](tuple(int(s) for s in size), generator=self.gen, dtype=dtype)
        self._account("randn", caller, t)
        return t

    # ------------------------------------------------- acceptance seam
    def _reject_now(self, site):
        """Should this acceptance round (of the current operation) be spoilt?"""
        self.site_calls[site] += 1
        k = self.reject.get(site, 0)
        if not k:
            return None
        rnd_no = self.site_round[site]
        self.site_round[site] += 1
        if rnd_no >= k:
            return None
        r = random.Random(H(self.fault_seed, "rej", site, self.op_index, rnd_no))
        self.fired["reject:" + site] += 1
        return r

    def _thin(self, index, r, modes=("all", "all", "half", "keep1")):
        """Reject all, or a random subset, of the accepted indices."""
        if len(index) == 0:
            return index
        mode = r.choice(modes)
        if mode == "all":
            return index[:0]
        if mode == "keep1":
            return index[:1]
        keep = [i for i in range(len(index)) if r.random() < 0.5]
        return index[keep]

    # ------------------------------------------------------------ install
    def install(self):
        assert not self._installed
        sim = self

        def setp(obj, name, new):
            self._installed.append((obj, name, getattr(obj, name)))
            setattr(obj, name, new)

        setp(torch, "rand", self._rand)
        setp(torch, "rand_like", self._rand_like)
        setp(torch, "randperm", self._randperm)
        setp(torch, "normal", self._normal)
        setp(torch, "randn", self._randn)

        # the clock (timing prints of DataSampler) and its prints
        from torchphysics.problem.samplers import data_samplers
        if hasattr(data_samplers, "time"):       # (a refactoring may drop the timing code: not a seam any more then)
            setp(data_samplers, "time", self.clock)
        if not hasattr(data_samplers, "print"):
            data_samplers.print = lambda *a, **k: None
            self._installed.append((data_samplers, "print", None))

        # trimesh draws from an OS-entropy generator unless told otherwise
        try:
            import trimesh.sample as tms
            import trimesh.util as tmu

            def _gen(seed=None):
                return sim.np_gen
            if hasattr(tmu, "default_rng"):
                setp(tmu, "default_rng", _gen)
            if hasattr(tms, "default_rng"):
                setp(tms, "default_rng", _gen)
            for mod in (tms, tmu):
                if hasattr(mod, "random_generator"):
                    setp(mod, "random_generator", _gen)
        except Exception:
            pass

        # acceptance decisions of the rejection loops
        from torchphysics.problem.domains.domainoperations import sampler_helper as sh
        from torchphysics.problem.samplers import sampler_base as sb
        from torchphysics.problem.samplers import random_samplers as rs
        # The acceptance seams wrap PRIVATE helpers. They pass every argument through unchanged and are installed
        # only where the helper exists, so that a refactoring of those helpers (another signature, another name)
        # can never make the simulator itself raise: the seam is then simply absent (fewer fault sites).
        self.missing_seams = []
        orig_check = getattr(sh, "_check_in_b", None)

        def check_in_b(*args, **kwargs):
            idx = orig_check(*args, **kwargs)
            if not isinstance(idx, torch.Tensor):
                return idx
            if sys._getframe(1).f_code.co_name in ("_random_points_inside",
                                                   "_random_points_if_n_eq_1"):
                r = sim._reject_now("check_in_b")
                if r is not None:
                    # no "keep1": the library estimates the acceptance rate from the
                    # round and would (legitimately) ask for n**2 proposals next
                    idx = sim._thin(idx, r, ("all", "all", "half"))
            return idx
        if orig_check is not None:
            setp(sh, "_check_in_b", check_in_b)
        else:
            self.missing_seams.append("check_in_b")

        orig_filter = getattr(sb.PointSampler, "_apply_filter", None)

        def apply_filter(this, *args, **kwargs):
            out = orig_filter(this, *args, **kwargs)
            if sys._getframe(1).f_code.co_name == "_sample_n_points_with_filter" \
                    and isinstance(this, rs.RandomUniformSampler) and hasattr(out, "__len__"):
                r = sim._reject_now("apply_filter")
                if r is not None and len(out) > 0:
                    keep = sim._thin(torch.arange(len(out)), r)
                    out = out[keep, ]
            return out
        if orig_filter is not None:
            setp(sb.PointSampler, "_apply_filter", apply_filter)
        else:
            self.missing_seams.append("apply_filter")

        orig_gauss = getattr(rs.GaussianSampler, "_check_inside_domain", None)

        def gauss_inside(this, *args, **kwargs):
            out = orig_gauss(this, *args, **kwargs)
            r = sim._reject_now("gauss_inside") if hasattr(out, "__len__") else None
            if r is not None and len(out) > 0:
                out = out[sim._thin(torch.arange(len(out)), r), ]
            return out
        if orig_gauss is not None:
            setp(rs.GaussianSampler, "_check_inside_domain", gauss_inside)
        else:
            self.missing_seams.append("gauss_inside")

        orig_lhs = getattr(rs.LHSSampler, "_check_lhs_inside", None)

        def lhs_inside(this, *args, **kwargs):
            out = orig_lhs(this, *args, **kwargs)
            r = sim._reject_now("lhs_inside") if hasattr(out, "__len__") else None
            if r is not None and len(out) > 0:
                out = out[sim._thin(torch.arange(len(out)), r), ]
            return out
        if orig_lhs is not None:
            setp(rs.LHSSampler, "_check_lhs_inside", lhs_inside)
        else:
            self.missing_seams.append("lhs_inside")
        return self

    def uninstall(self):
        for obj, name, old in reversed(self._installed):
            if old is None:
                try:
                    delattr(obj, name)
                except AttributeError:
                    pass
            else:
                setattr(obj, name, old)
        self._installed = []

    def __enter__(self):
        return self.install()

    def __exit__(self, *exc):
        self.uninstall()
        return False

    def summary(self):
        return {
            "draw_calls": self.seq,
            "elements": self.total_elems,
            "ops": self.op_index + 1,
            "max_op_calls": max(self.max_op_calls, self.op_calls),
            "fired": dict(self.fired),
            "site_calls": dict(self.site_calls),
            "log_head": self.log[:12],
            "digest": self.digest(),
        }
