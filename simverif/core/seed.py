"""Seed derivation: one integer decides everything.

H(base, *labels) -> 63-bit int via SHA-256.  Independent sub-streams are
derived by label so that adding a draw in one stream cannot shift another.
"""
import hashlib
import json
import random


def H(*parts):
    s = "\x1f".join(str(p) for p in parts).encode()
    return int.from_bytes(hashlib.sha256(s).digest()[:8], "big") >> 1


def rnd(*parts):
    """A python PRNG for the sub-stream named by parts."""
    return random.Random(H(*parts))


def digest(obj):
    """Stable digest of a JSON-able object."""
    return hashlib.sha256(
        json.dumps(obj, sort_keys=True, separators=(",", ":"), default=_default).encode()
    ).hexdigest()


def _default(o):
    try:
        import numpy as np
        if isinstance(o, (np.integer,)):
            return int(o)
        if isinstance(o, (np.floating,)):
            return float(o)
        if isinstance(o, np.ndarray):
            return o.tolist()
    except Exception:
        pass
    if isinstance(o, (set, frozenset)):
        return sorted(o)
    return repr(o)
