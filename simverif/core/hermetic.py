"""Run one case in a forked child, so that every case starts from the same
process image (state leaking through process globals -- e.g. shared default
arguments -- can then only come from *within* the case, and the case replays
in a fresh interpreter exactly as it ran in the sweep)."""
import os
import pickle
import traceback


def hermetic(fn):
    def run(case):
        r, w = os.pipe()
        pid = os.fork()
        if pid == 0:
            code = 0
            try:
                os.close(r)
                try:
                    res = ("ok", fn(case))
                except BaseException:
                    res = ("err", traceback.format_exc()[-2000:])
                with os.fdopen(w, "wb") as f:
                    pickle.dump(res, f)
            except BaseException:
                code = 3
            finally:
                os._exit(code)
        os.close(w)
        with os.fdopen(r, "rb") as f:
            data = f.read()
        os.waitpid(pid, 0)
        if not data:
            raise RuntimeError("hermetic child died without a result")
        kind, val = pickle.loads(data)
        if kind == "err":
            raise RuntimeError("case failed in hermetic child:\n" + val)
        return val
    return run
