"""Runner: seeded search over cases, known-findings protocol, minimisation,
fresh-interpreter confirmation of replays, determinism legs, evidence.

Exit codes: 0 held on everything explored (KNOWN-FINDING lines allowed);
1 at least one confirmed VIOLATION line; 2 harness error (never a pass).
"""
import concurrent.futures as cf
import faulthandler
import json
import multiprocessing as mp
import os
import subprocess
import sys
import time
import traceback
from collections import Counter, OrderedDict

from .seed import H, digest

VERIF = os.path.dirname(os.path.dirname(os.path.dirname(os.path.abspath(__file__))))
KNOWN = os.path.join(VERIF, "known_findings.json")
CHECK = os.path.join(VERIF, "check")


def sig_of(v):
    return (v["property"], v["clause"], v["kind"], v.get("site", ""))


def sig_str(s):
    return "::".join(s)


def rec_digest(rec):
    return digest({"v": [sig_of(v) for v in rec["violations"]], "sim": rec.get("sim", {}).get("digest"),
                   "rows": rec.get("rows"), "extra": rec.get("digest_extra")})


# ------------------------------------------------------------ findings file
def load_findings(prop=None):
    if not os.path.exists(KNOWN):
        return []
    data = json.load(open(KNOWN))
    out = data["findings"]
    if prop:
        out = [f for f in out if prop in f["properties"]]
    return out


def match_finding(finding, v, feats):
    """All signature fields and the whole feature predicate must match."""
    if finding.get("status") != "open":
        return False
    for m in finding["match"]:
        if m.get("property") != v["property"]:
            continue
        if "clause" in m and m["clause"] != v["clause"]:
            continue
        if "kind" in m and m["kind"] != v["kind"]:
            continue
        if "site" in m and m["site"] != v.get("site", ""):
            continue
        ok = True
        for key, want in m.get("where", {}).items():
            have = feats.get(key)
            if isinstance(want, dict) and "contains" in want:
                ok &= isinstance(have, str) and want["contains"] in have.split("+")
            elif isinstance(want, dict) and "in" in want:
                ok &= have in want["in"]
            else:
                ok &= have == want
        for key, want in m.get("detail", {}).items():
            ok &= v.get("detail", {}).get(key) == want
        if ok:
            return True
    return False


def classify(violations, feats, findings):
    """-> (unlisted violations, Counter of finding ids hit)."""
    unlisted, hit = [], Counter()
    for v in violations:
        for f in findings:
            if match_finding(f, v, feats):
                hit[f["id"]] += 1
                break
        else:
            unlisted.append(v)
    return unlisted, hit


# ------------------------------------------------------------------ workers
_PROP = None


def _init_worker(modname):
    global _PROP
    import importlib
    import torch
    torch.set_num_threads(1)
    _PROP = importlib.import_module(modname)
    faulthandler.enable()


def _work(args):
    modname, base, tier, idxs = args
    if _PROP is None or _PROP.__name__ != modname:
        _init_worker(modname)
    out = []
    for i in idxs:
        seed = H(base, _PROP.ID, i)
        t0 = time.time()
        try:
            case = _PROP.gen_case(seed, tier)
            if case is None:
                out.append({"i": i, "skip": True})
                continue
            rec = _PROP.run_case(case)
        except Exception:
            out.append({"i": i, "seed": seed, "harness": traceback.format_exc()[-1500:]})
            continue
        item = {"i": i, "seed": seed, "digest": rec_digest(rec),
                "feats": rec.get("features", {}), "stats": rec.get("stats", {}),
                "fired": rec.get("sim", {}).get("fired", {}),
                "site_calls": rec.get("sim", {}).get("site_calls", {}),
                "steps": rec.get("sim", {}).get("draw_calls", 0) + rec.get("steps", 0),
                "ops": rec.get("sim", {}).get("ops", 0),
                "key": rec.get("key"), "nontrivial": rec.get("nontrivial", True),
                "wall": time.time() - t0}
        if rec["violations"]:
            item["violations"] = rec["violations"]
            item["case"] = case
        if i < 3:
            item["sample"] = {"case": case, "sim_log_head": rec.get("sim", {}).get("log_head", [])[:6],
                              "outcome": rec.get("outcome")}
        out.append(item)
    return out


def _chunks(n, size):
    return [list(range(a, min(n, a + size))) for a in range(0, n, size)]


def sweep(prop, tier, base, n_cases, wall_cap, workers, soft_cap=None):
    """Runs the cases; returns (results, timed_out, dead, truncated).

    soft_cap (seconds): once it has elapsed no further chunk of cases is started; the running ones finish and
    the run is judged on what was explored (exit status unaffected, the evidence says how many cases ran). This
    keeps a check inside its time box on a loaded machine. wall_cap stays the hard limit: chunks still running
    then are killed and the run is a harness error (a hang is never a pass)."""
    modname = prop.__name__
    chunk = max(1, min(64, n_cases // (workers * 16) or 1))
    jobs = [(modname, base, tier, c) for c in _chunks(n_cases, chunk)]
    results = []
    t0 = time.time()
    timed_out = False
    truncated = False
    soft_cap = soft_cap if soft_cap is not None else 0.7 * wall_cap
    if workers <= 1:
        _init_worker(modname)
        for j in jobs:
            results.extend(_work(j))
            if time.time() - t0 > wall_cap:
                timed_out = True
                break
            if time.time() - t0 > soft_cap:
                truncated = len(results) < n_cases
                break
        return results, timed_out, None, truncated
    ctx = mp.get_context("fork")
    dead = None
    with cf.ProcessPoolExecutor(max_workers=workers, mp_context=ctx,
                                initializer=_init_worker, initargs=(modname,)) as ex:
        futs = [ex.submit(_work, j) for j in jobs]
        pending = set(futs)
        try:
            while pending:
                done, pending = cf.wait(pending, timeout=2.0, return_when=cf.FIRST_COMPLETED)
                for f in done:
                    if not f.cancelled():
                        results.extend(f.result())
                el = time.time() - t0
                if not truncated and pending and el > soft_cap:
                    for f in list(pending):
                        f.cancel()
                    n_before = len(pending)
                    pending = {f for f in pending if not f.cancelled()}
                    truncated = n_before > len(pending)
                if pending and el > wall_cap:
                    timed_out = True
                    for f in pending:
                        f.cancel()
                    for p in list(getattr(ex, "_processes", {}).values()):
                        try:
                            p.terminate()
                        except Exception:
                            pass
                    break
        except cf.process.BrokenProcessPool as e:
            dead = repr(e)
    results.sort(key=lambda r: r["i"])
    return results, timed_out, dead, truncated


# ------------------------------------------------------------- minimisation
def minimise(prop, case, sig, budget=120):
    """Greedy structural shrinking while the same violation signature persists."""
    if not hasattr(prop, "shrink"):
        return case, 0
    runs = 0
    cur = case
    improved = True
    while improved and runs < budget:
        improved = False
        for cand in prop.shrink(cur):
            runs += 1
            if runs > budget:
                break
            try:
                rec = prop.run_case(cand)
            except Exception:
                continue
            if any(sig_of(v) == sig for v in rec["violations"]):
                cur = cand
                improved = True
                break
    return cur, runs


def confirm_fresh(prop_id, path, sig, hashseed="0"):
    """Re-execute the replay file in a fresh interpreter; must reproduce sig."""
    env = dict(os.environ, PYTHONHASHSEED=hashseed)
    try:
        p = subprocess.run([CHECK, prop_id, "--replay", path, "--expect", sig_str(sig)],
                           capture_output=True, text=True, timeout=600, env=env)
    except subprocess.TimeoutExpired:
        return False, "timeout"
    return p.returncode == 1 and "REPRODUCED" in p.stdout, (p.stdout + p.stderr)[-800:]


def write_replay(prop_id, case, v, minimised_from=None):
    d = dict(case)
    d["expect"] = {"property": v["property"], "clause": v["clause"], "kind": v["kind"],
                   "site": v.get("site", ""), "detail": v.get("detail", {})}
    if minimised_from:
        d["minimised_from"] = minimised_from
    os.makedirs(os.path.join(VERIF, "replays"), exist_ok=True)
    path = os.path.join(VERIF, "replays", "%s-%s.json" % (prop_id, digest(d)[:8]))
    json.dump(d, open(path, "w"), indent=1, sort_keys=True)
    return path


# ------------------------------------------------------------------- replay
def replay(prop, path, expect=None):
    case = json.load(open(path))
    rec = prop.run_case(case)
    exp = case.get("expect")
    want = tuple(expect.split("::")) if expect else (
        (exp["property"], exp["clause"], exp["kind"], exp.get("site", "")) if exp else None)
    sigs = [sig_of(v) for v in rec["violations"]]
    for v in rec["violations"]:
        print("  violation:", json.dumps(v, default=str)[:600])
    if want and want in sigs:
        print("REPRODUCED %s" % sig_str(want))
        print("VIOLATION property=%s replay=%s" % (want[0], path))
        return 1
    if sigs and not want:
        print("VIOLATION property=%s replay=%s" % (sigs[0][0], path))
        return 1
    print("NOT-REPRODUCED (violations now: %s)" % [sig_str(s) for s in sigs])
    return 0


# --------------------------------------------------------------- witnesses
def run_witnesses(prop, findings):
    """Replay committed witnesses: open findings -> KNOWN-FINDING lines,
    fixed findings -> regression corpus (must be clean)."""
    lines, regress, n = [], [], 0
    for f in findings:
        for w in f.get("witnesses", []):
            if w.get("property") != prop.ID:
                continue
            path = os.path.join(VERIF, w["file"])
            case = json.load(open(path))
            n += 1
            try:
                rec = prop.run_case(case)
            except Exception:
                regress.append((f, w, None, "witness crashed: " + traceback.format_exc()[-300:]))
                continue
            exp = case["expect"]
            want = (exp["property"], exp["clause"], exp["kind"], exp.get("site", ""))
            still = any(sig_of(v) == want for v in rec["violations"])
            if f["status"] == "open":
                if still:
                    ln = "KNOWN-FINDING: property=%s %s %s" % (prop.ID, f["id"], f["what"])
                    if ln not in lines:
                        lines.append(ln)
                others = [v for v in rec["violations"] if sig_of(v) != want and v["property"] == prop.ID]
                feats = rec.get("features", {})
                unl, _ = classify(others, feats, findings)
                for v in unl:
                    regress.append((f, w, v, path))
            else:
                mine = [v for v in rec["violations"] if v["property"] in (prop.ID, "HARNESS")]
                unl, _ = classify(mine, rec.get("features", {}), findings)
                for v in unl:
                    regress.append((f, w, v, path))
    return lines, regress, n


# --------------------------------------------------------------------- main
def run_property(prop, tier, base, workers=None):
    t_start = time.time()
    workers = workers or int(os.environ.get("VERIF_WORKERS", min(16, os.cpu_count() or 1)))
    bud = prop.budget(tier)
    if os.environ.get("VERIF_CASES"):
        bud["cases"] = min(bud["cases"], int(os.environ["VERIF_CASES"]))
    if os.environ.get("VERIF_SOFT_WALL"):       # tools / tests only
        bud["soft_wall"] = float(os.environ["VERIF_SOFT_WALL"])
    findings = load_findings(prop.ID)
    status = 0
    print("check %s tier=%s VERIF_SEED=%d cases=%d workers=%d" % (prop.ID, tier, base, bud["cases"], workers))
    sys.stdout.flush()

    # 1. witnesses of known findings and the regression corpus of fixed ones
    kf_lines, regress, n_wit = run_witnesses(prop, findings)
    for ln in kf_lines:
        print(ln)
    reported = []
    for f, w, v, path in regress:
        if v is None:
            print("HARNESS-ERROR: %s (%s)" % (path, f["id"]))
            status = 2
        else:
            print("VIOLATION property=%s replay=%s" % (prop.ID, path))
            print("  (witness of %s entry %s fails: %s)" % (f["status"], f["id"], json.dumps(v)[:300]))
            reported.append({"sig": sig_of(v), "replay": path})
            status = max(status, 1)

    # 2. extra deterministic obligations of the property (enumerations etc.)
    extra = {}
    if hasattr(prop, "pre"):
        extra = prop.pre(tier, base) or {}
        for v, case in extra.pop("violations", []):
            unl, hit = classify([v], case.get("features", {}) if isinstance(case, dict) else {}, findings)
            if unl:
                path = write_replay(prop.ID, case, v)
                ok, log = confirm_fresh(prop.ID, path, sig_of(v))
                if ok:
                    print("VIOLATION property=%s replay=%s" % (prop.ID, path))
                    print("  " + json.dumps(v, default=str)[:400])
                    reported.append({"sig": sig_of(v), "replay": path})
                    status = max(status, 1)
                else:
                    print("HARNESS-ERROR: violation did not reproduce in a fresh interpreter: %s\n%s" % (path, log))
                    status = 2

    # 3. seeded sweep
    results, timed_out, dead, truncated = sweep(prop, tier, base, bud["cases"], bud["wall"], workers, bud.get("soft_wall"))
    if truncated:
        print("NOTE: time box reached, %d of %d planned cases explored (the verdict covers those)" % (len(results), bud["cases"]))
    if dead:
        print("HARNESS-ERROR: worker died: %s" % dead)
        status = 2
    if timed_out:
        print("HARNESS-ERROR: sweep exceeded its wall cap of %ds (%d of %d cases done)" % (
            bud["wall"], len(results), bud["cases"]))
        status = 2
    harness = [r for r in results if "harness" in r]
    for r in harness[:3]:
        print("HARNESS-ERROR: case %d seed %d:\n%s" % (r["i"], r["seed"], r["harness"]))
    if harness:
        status = 2

    by_sig = OrderedDict()
    hits = Counter()
    fired = Counter()
    site_calls = Counter()
    keys = set()
    cells = Counter()
    steps = ops = 0
    n_run = 0
    stats_sum = Counter()
    samples = []
    for r in results:
        if r.get("skip") or "harness" in r:
            continue
        n_run += 1
        steps += r.get("steps", 0)
        ops += r.get("ops", 0)
        fired.update(r.get("fired", {}))
        site_calls.update(r.get("site_calls", {}))
        for k, v in r.get("stats", {}).items():
            if isinstance(v, (int, float)) and not isinstance(v, bool):
                if k.startswith("max_"):
                    stats_sum[k] = max(stats_sum[k], v)
                else:
                    stats_sum[k] += v
        if r.get("nontrivial", True) and r.get("key") is not None:
            keys.add(r["key"])
        cell = r.get("feats", {}).get("cell")
        if cell:
            cells[cell] += 1
        if "sample" in r:
            samples.append(r["sample"])
        if "violations" in r:
            hv = [v for v in r["violations"] if v["property"] == "HARNESS"]
            if hv:
                print("HARNESS-ERROR: oracle/monitor failure in case %d: %s" % (r["i"], json.dumps(hv[0])[:500]))
                status = 2
            mine = [v for v in r["violations"] if v["property"] == prop.ID]
            unl, hit = classify(mine, r["feats"], findings)
            hits.update(hit)
            for v in unl:
                by_sig.setdefault(sig_of(v), []).append((r, v))

    # 4. unlisted violations: minimise, write replay, confirm in a fresh interpreter
    n_viol = 0
    for sig, lst in list(by_sig.items())[:6]:
        r, v = lst[0]
        case = r["case"]
        small, runs = minimise(prop, case, sig, budget=bud.get("shrink", 80))
        rec = prop.run_case(small)
        vv = next((x for x in rec["violations"] if sig_of(x) == sig), v)
        path = write_replay(prop.ID, small, vv,
                            {"runs": runs, "original_seed": case.get("seed"), "count_same_signature": len(lst)})
        ok, log = confirm_fresh(prop.ID, path, sig)
        if ok:
            print("VIOLATION property=%s replay=%s" % (prop.ID, path))
            print("  signature=%s count=%d first_case=%d detail=%s" % (
                sig_str(sig), len(lst), r["i"], json.dumps(vv.get("detail", {}), default=str)[:300]))
            reported.append({"sig": sig, "replay": path})
            n_viol += 1
            status = max(status, 1)
        else:
            print("HARNESS-ERROR: violation %s did not reproduce in a fresh interpreter (%s)\n%s" % (
                sig_str(sig), path, log))
            status = 2
    if len(by_sig) > 6:
        print("  (+%d further distinct signatures not minimised)" % (len(by_sig) - 6))

    for fid, c in sorted(hits.items()):
        f = next(x for x in findings if x["id"] == fid)
        line = "KNOWN-FINDING: property=%s %s %s" % (prop.ID, fid, f["what"])
        if line not in kf_lines:
            print(line)
            kf_lines.append(line)

    # 5. determinism leg: same seeds, other hash seed, fresh interpreter
    legs = 0
    if status != 2 and bud.get("det_legs", 6) and not os.environ.get("VERIF_NO_DET"):
        idx = [r["i"] for r in results if not r.get("skip") and "harness" not in r][:bud.get("det_legs", 6)]
        want = {r["i"]: r["digest"] for r in results if r["i"] in idx}
        env = dict(os.environ, PYTHONHASHSEED="12345", VERIF_SEED=str(base))
        try:
            p = subprocess.run([CHECK, prop.ID, "--digests", ",".join(map(str, idx)), "--tier", tier],
                               capture_output=True, text=True, timeout=600, env=env)
            got = json.loads(p.stdout.strip().splitlines()[-1])
            legs = len(idx)
            for i in idx:
                if got.get(str(i)) != want[i]:
                    print("HARNESS-ERROR: nondeterminism: case %d digest %s != %s under another hash seed" % (
                        i, got.get(str(i)), want[i]))
                    status = 2
        except Exception as e:
            print("HARNESS-ERROR: determinism leg failed to run: %r" % (e,))
            status = 2

    wall = time.time() - t_start
    dead_probes = []
    if hasattr(prop, "PROBES"):
        for pr in prop.PROBES:
            if not (fired.get(pr, 0) or site_calls.get(pr, 0) or stats_sum.get(pr, 0)):
                dead_probes.append(pr)
    cov = {
        "evaluations": n_run + n_wit + extra.get("evaluations", 0),
        "distinct_nontrivial": len(keys) + extra.get("distinct_nontrivial", 0),
        "rule": prop.RULE,
        "samples": (samples[:3] + extra.get("samples", []))[:4] or [{"note": "no case executed"}],
        "runs": n_run,
        "runs_per_hour": round(n_run / max(wall, 1e-9) * 3600),
        "seeds": {"base": base, "first_index": 0, "last_index": bud["cases"] - 1,
                  "derivation": "sha256(base, property, index)"},
        "planned_cases": bud["cases"],
        "stopped_by_time_box": bool(truncated),
        "sim_steps": steps,
        "sim_time_note": "no clock in this system: logical steps (draw calls / operations / training steps) are the simulated time",
        "operations": ops,
        "faults_fired": dict(fired),
        "acceptance_sites_reached": dict(site_calls),
        "dead_probes": dead_probes,
        "cells_reached": len(cells),
        "known_findings_hit": dict(hits),
        "witnesses_replayed": n_wit,
        "determinism_legs": legs,
        "oracle_counters": {k: (round(v, 9) if isinstance(v, float) else v) for k, v in stats_sum.items()},
        "unlisted_signatures": [sig_str(s) for s in by_sig],
        "components": prop.COMPONENTS,
    }
    for k, v in extra.items():
        if k not in ("evaluations", "distinct_nontrivial", "samples"):
            cov[k] = v
    if reported and status == 2:
        # a dead or timed-out worker is frequently a consequence of the very defect that was found (runaway growth)
        print("NOTE: harness errors occurred as well; the confirmed, replayable violation(s) take precedence -> exit 1")
        status = 1
    ev = {"property_id": prop.ID, "tier": tier, "seed": base, "level": prop.LEVEL,
          "coverage": cov, "assumptions": prop.ASSUMPTIONS, "wall_s": round(wall, 2),
          "violations": len(reported)}
    if status != 2:
        evdir = os.environ.get("VERIF_EVIDENCE_DIR") or os.path.join(VERIF, "evidence")   # tools only (seedcheck, sensitivity)
        os.makedirs(evdir, exist_ok=True)
        json.dump(ev, open(os.path.join(evdir, prop.ID + ".json"), "w"), indent=1, default=str)
    print("%s: %d cases, %d distinct non-trivial, %d unlisted signature(s), known findings hit %s, %.1fs -> exit %d" % (
        prop.ID, n_run, len(keys), len(by_sig), dict(hits), wall, status))
    return status


def digests(prop, tier, base, idxs):
    out = {}
    for i in idxs:
        seed = H(base, prop.ID, i)
        case = prop.gen_case(seed, tier)
        rec = prop.run_case(case)
        out[str(i)] = rec_digest(rec)
    print(json.dumps(out))
    return 0
