"""Seeded generator of domain expressions inside the conditioning envelope
(DESIGN.md section 5).  Pure python/numpy + the reference model; no torchphysics."""
import math

import numpy as np

from .ref import geometry as G


def q(x, step=64.0):
    """Round to a dyadic number (exactly representable in float32)."""
    return round(x * step) / step


def _aff(r, a, lo_b, hi_b, var, p_dep):
    if var is None or r.random() >= p_dep:
        return q(a)
    b = q(r.uniform(lo_b, hi_b), 16.0)
    if b == 0:
        return q(a)
    if r.random() < 0.15:
        return ["sin", q(a), q(b * 0.5, 16.0), q(r.uniform(1.0, 3.0), 4.0), var]
    return ["aff", q(a), b, var]


def gen_iv(r, var="x", pvar=None, p_dep=0.0, lo=-4.0):
    a = r.uniform(lo, 2.0)
    ln = r.uniform(0.5, 3.0)
    ea = _aff(r, a, -0.4, 0.4, pvar, p_dep)
    # keep the length >= 0.5 for t in [0,1]
    eb = _aff(r, a + ln + 0.4, 0.0, 0.8, pvar, p_dep)
    return {"k": "iv", "var": var, "a": ea, "b": eb}


def gen_circ(r, var="x", pvar=None, p_dep=0.0, around=None, rad=None):
    c = around if around is not None else (r.uniform(-3, 3), r.uniform(-3, 3))
    rad = rad if rad is not None else r.uniform(0.5, 2.0)
    return {"k": "circ", "var": var,
            "c": [_aff(r, c[0], -1.0, 1.0, pvar, p_dep * 0.6), _aff(r, c[1], -1.0, 1.0, pvar, p_dep * 0.6)],
            "r": _aff(r, rad, 0.0, 0.8, pvar, p_dep)}


def gen_sph(r, var="x", pvar=None, p_dep=0.0):
    c = [r.uniform(-3, 3) for _ in range(3)]
    return {"k": "sph", "var": var,
            "c": [_aff(r, ci, -1.0, 1.0, pvar, p_dep * 0.5) for ci in c],
            "r": _aff(r, r.uniform(0.5, 2.0), 0.0, 0.8, pvar, p_dep)}


def _two_dirs(r, tri, scale=1.0):
    """Two edge vectors from the origin corner with all interior angles >= 25 deg."""
    for _ in range(100):
        l1, l2 = r.uniform(0.5, 3.0) * scale, r.uniform(0.5, 3.0) * scale
        th = r.uniform(0, 2 * math.pi)
        if r.random() < 0.3:
            th = r.choice((0.0, math.pi / 2, math.pi, 1.5 * math.pi))  # axis aligned
            al = math.pi / 2 if r.random() < 0.7 else math.radians(r.uniform(25, 155))
        else:
            al = math.radians(r.uniform(25, 155))
        sgn = r.choice((1, -1))  # orientation: ccw / cw
        d1 = (l1 * math.cos(th), l1 * math.sin(th))
        d2 = (l2 * math.cos(th + sgn * al), l2 * math.sin(th + sgn * al))
        if tri:
            # remaining two angles
            e = (d2[0] - d1[0], d2[1] - d1[1])
            le = math.hypot(*e)
            a1 = math.acos(max(-1, min(1, (-d1[0] * e[0] - d1[1] * e[1]) / (l1 * le))))
            a2 = math.pi - al - a1
            if min(a1, a2) < math.radians(25):
                continue
        return d1, d2, sgn
    raise RuntimeError("no dirs")


def gen_par(r, var="x", pvar=None, p_dep=0.0, tri=False, origin=None, scale=1.0):
    d1, d2, sgn = _two_dirs(r, tri, scale)
    o = origin if origin is not None else (r.uniform(-3, 2), r.uniform(-3, 2))
    dep = pvar is not None and r.random() < p_dep
    if not dep:
        node = {"k": "tri" if tri else "par", "var": var,
                "o": [q(o[0]), q(o[1])],
                "c1": [q(o[0] + d1[0]), q(o[1] + d1[1])],
                "c2": [q(o[0] + d2[0]), q(o[1] + d2[1])]}
    else:
        # rigid translation + scaling along the edge directions: angles are kept
        tx, ty = (q(r.uniform(-1, 1), 16.0) if r.random() < 0.5 else 0.0 for _ in range(2))
        b1 = q(r.uniform(-0.3, 0.5), 16.0) if r.random() < 0.6 else 0.0
        b2 = q(r.uniform(-0.3, 0.5), 16.0) if r.random() < 0.6 else 0.0

        def aff(a, b):
            return ["aff", q(a), q(b, 1024.0), pvar] if q(b, 1024.0) != 0 else q(a)
        node = {"k": "tri" if tri else "par", "var": var,
                "o": [aff(o[0], tx), aff(o[1], ty)],
                "c1": [aff(o[0] + d1[0], tx + b1 * d1[0]), aff(o[1] + d1[1], ty + b1 * d1[1])],
                "c2": [aff(o[0] + d2[0], tx + b2 * d2[0]), aff(o[1] + d2[1], ty + b2 * d2[1])]}
    return node


def gen_flip(r, var="x", pvar="t", tri=True):
    """A triangle/parallelogram whose vertex ORIENTATION depends on the parameter: corner_2 is
    mirrored through the origin corner as t passes 0.5 (rows are drawn from t <= 0.3 or t >= 0.7)."""
    for _ in range(200):
        d1, d2, sgn = _two_dirs(r, tri)
        if math.hypot(*d2) < 1.3:
            continue
        if tri:
            # the mirrored triangle (d1, -d2) must satisfy the angle envelope as well
            ok = True
            for f in (1.0, 0.4, -0.4, -1.0):
                e2 = (f * d2[0], f * d2[1])
                e = (e2[0] - d1[0], e2[1] - d1[1])
                l1, l2, le = math.hypot(*d1), math.hypot(*e2), math.hypot(*e)
                al = math.acos(max(-1, min(1, (d1[0] * e2[0] + d1[1] * e2[1]) / (l1 * l2))))
                a1 = math.acos(max(-1, min(1, (-d1[0] * e[0] - d1[1] * e[1]) / (l1 * le))))
                if min(al, a1, math.pi - al - a1) < math.radians(25):
                    ok = False
            if not ok:
                continue
        o = (r.uniform(-2, 2), r.uniform(-2, 2))
        return {"k": "tri" if tri else "par", "var": var, "o": [q(o[0]), q(o[1])],
                "c1": [q(o[0] + d1[0]), q(o[1] + d1[1])],
                "c2": [["aff", q(o[0] - d2[0]), q(2 * d2[0], 1024.0), pvar], ["aff", q(o[1] - d2[1]), q(2 * d2[1], 1024.0), pvar]]}
    raise RuntimeError("no flip shape")


_POLYS = [
    [[0, 0], [2, 0], [2, 1], [1, 1], [1, 2], [0, 2]],                 # L
    [[0, 0], [3, 0], [3, 2], [2, 2], [2, 1], [1, 1], [1, 2], [0, 2]],  # U
    [[0, 0], [2, 0.5], [4, 0], [2, 2]],                                # arrow head (non convex)
    [[0, 0], [2, 0], [2.5, 1.5], [1, 2.5], [-0.5, 1.5]],               # convex pentagon
]


def gen_poly(r, var="x"):
    base = r.choice(_POLYS)
    s = r.uniform(0.6, 1.2)
    th = r.choice((0.0, r.uniform(0, 2 * math.pi)))
    ox, oy = r.uniform(-3, 1), r.uniform(-3, 1)
    verts = []
    for x, y in base:
        xr = s * (x * math.cos(th) - y * math.sin(th)) + ox
        yr = s * (x * math.sin(th) + y * math.cos(th)) + oy
        verts.append([q(xr), q(yr)])
    if r.random() < 0.5:
        verts = verts[::-1]
    return {"k": "poly", "var": var, "verts": verts}


_HOLES = [[(0.6, 0.6), (1.2, 0.6), (1.2, 1.2), (0.6, 1.2)], [(2.5, 0.8), (3.2, 0.8), (2.8, 1.5)],
          [(1.0, 2.0), (1.8, 2.0), (1.4, 2.6)], [(2.4, 2.0), (3.4, 2.0), (3.4, 2.5), (2.4, 2.5)]]


def gen_poly_holes(r, var="x"):
    """A 4 x 3 rectangle (similarity transformed) with 0-4 polygonal holes, rings in random orientation."""
    s = r.uniform(0.6, 1.2)
    th = r.choice((0.0, r.uniform(0, 2 * math.pi)))
    ox, oy = r.uniform(-3, 0), r.uniform(-3, 0)

    def tf(pt):
        x, y = pt
        return [q(s * (x * math.cos(th) - y * math.sin(th)) + ox), q(s * (x * math.sin(th) + y * math.cos(th)) + oy)]
    outer = [tf(pt) for pt in [(0, 0), (4, 0), (4, 3), (0, 3)]]
    if r.random() < 0.5:
        outer = outer[::-1]
    k = r.choice((0, 1, 2, 2, 3, 4))
    holes = []
    for h in r.sample(_HOLES, k):
        ring = [tf(pt) for pt in h]
        if r.random() < 0.5:
            ring = ring[::-1]
        holes.append(ring)
    return {"k": "poly", "var": var, "verts": outer, "holes": holes}


def gen_prim2(r, var="x", pvar=None, p_dep=0.0, allow_poly=False):
    ks = ["circ", "par", "tri"] + (["poly"] if allow_poly else [])
    k = r.choice(ks)
    if k == "circ":
        return gen_circ(r, var, pvar, p_dep)
    if k == "poly":
        return gen_poly(r, var)
    return gen_par(r, var, pvar, p_dep, tri=(k == "tri"))


def _tvals(pvars):
    if not pvars:
        return [{}]
    return [{v: [[t]] for v in pvars} for t in (0.0, 0.5, 1.0)]


def _mc(node, pvars, rng, n=600):
    """Reference samples of node at t in {0, .5, 1} -> list of (params_row, pts)."""
    out = []
    for tv in _tvals(pvars):
        row = {v: a[0] for v, a in tv.items()}
        out.append((row, G.uniform_sample(node, row, n, rng)))
    return out


def _table(pts, row):
    n = len(next(iter(pts.values())))
    P = dict(pts)
    for v, val in row.items():
        P[v] = np.repeat(np.asarray(val, float).reshape(1, -1), n, axis=0)
    return P


def gen_bool(r, rng, a, pvars, var="x", pvar=None, p_dep=0.0, op=None):
    """a <op> b with b placed so that every piece has >= ~15 % relative measure."""
    op = op or r.choice(("union", "cut", "inter"))
    flag_want = r.random() < 0.35
    for _ in range(60):
        samp = _mc(a, pvars, rng, 400)
        row0, pts0 = samp[len(samp) // 2]
        i = r.randrange(400)
        anchor = pts0[var][i]
        kind = r.choice(("circ", "par", "tri"))
        if op == "union" and flag_want:
            # place b away from a
            bb, _ = G.box(a, _table({var: pts0[var][:1]}, row0))
            anchor = (bb[0, 1] + r.uniform(0.8, 2.0) + 1.5, r.uniform(bb[0, 2], bb[0, 3]))
        small = (op == "cut" and flag_want)
        if kind == "circ":
            b = gen_circ(r, var, pvar, p_dep, around=(anchor[0], anchor[1]),
                         rad=r.uniform(0.25, 0.5) if small else None)
        else:
            sc = 0.3 if small else 1.0
            d = r.uniform(0.2, 0.8) * sc
            b = gen_par(r, var, pvar, p_dep, tri=(kind == "tri"),
                        origin=(anchor[0] - d, anchor[1] - d), scale=sc)
        ok = True
        disjoint = contained = True
        for (row, pa) in samp:
            Pa = _table(pa, row)
            mb_on_a = G.margin(b, Pa)
            pb = G.uniform_sample(b, row, 400, rng)
            Pb = _table(pb, row)
            ma_on_b = G.margin(a, Pb)
            fa_in_b = float(np.mean(mb_on_a >= 0))
            fb_in_a = float(np.mean(ma_on_b >= 0))
            disjoint &= bool(np.all(mb_on_a < -0.25) and np.all(ma_on_b < -0.25))
            contained &= bool(np.all(ma_on_b > 0.15))
            if op == "cut":
                ok &= (1 - fa_in_b) >= 0.2 and fa_in_b >= 0.04
            elif op == "inter":
                ok &= fa_in_b >= 0.2 and fb_in_a >= 0.1
            else:
                ok &= (fb_in_a <= 0.9 and fa_in_b <= 0.9)
        if not ok:
            continue
        node = {"k": op, "a": a, "b": b}
        if op == "union":
            node["disjoint"] = bool(disjoint and flag_want)
            if flag_want and not disjoint:
                continue
        if op == "cut":
            node["contained"] = bool(contained and flag_want)
            if flag_want and not contained:
                continue
        return node
    return None


def gen_solid2(r, rng, depth, pvar=None, p_dep=0.0, var="x", allow_poly=False, allow_tf=True):
    """A 2-D solid expression of the given depth."""
    pvars = [pvar] if pvar else []
    node = gen_prim2(r, var, pvar, p_dep, allow_poly=allow_poly and depth == 0)
    for _ in range(depth):
        c = r.random()
        if allow_tf and c < 0.2:
            node = {"k": "transl", "d": node,
                    "v": [_aff(r, r.uniform(-1.5, 1.5), -1, 1, pvar, p_dep * 0.5),
                          _aff(r, r.uniform(-1.5, 1.5), -1, 1, pvar, p_dep * 0.5)]}
        elif allow_tf and c < 0.4:
            node = {"k": "rot", "d": node,
                    "ang": _aff(r, r.uniform(-3.1, 3.1), -1.5, 1.5, pvar, p_dep * 0.5),
                    "around": [q(r.uniform(-1, 1)), q(r.uniform(-1, 1))]}
        else:
            nb = gen_bool(r, rng, node, pvars, var, pvar, p_dep * 0.5)
            if nb is not None:
                node = nb
    return node
