"""objsim -- several *holders* of what may be the same underlying state (a
wrapper, a re-wrap, partial evaluations, deep copies, the DomainUserFunction
variant) perform operations in a simulator-chosen interleaving (C13).
No draws, no clock, no faults: the history/reference-model half of the technique."""
import copy
import traceback

import torch

from .geosim import viol, innermost_site

NAMES = ["a", "b", "c", "d", "e", "g"]


def default_of(case, a):
    """Declared default of argument a: a tag, or one of the values a truthiness / 'is None' test confuses with
    'no default' (None, 0, False, '')."""
    return (case.get("dvals") or {}).get(a, "dflt_" + a)


def make_fun(args, n_defaults, case=None):
    """def f(a, b, c=..): returns the dict of what it received (tagged)."""
    sig = []
    for i, a in enumerate(args):
        if i >= len(args) - n_defaults:
            sig.append("%s=%r" % (a, default_of(case or {}, a)))
        else:
            sig.append(a)
    src = "def f(%s):\n    return {%s}\n" % (", ".join(sig), ", ".join("%r: %s" % (a, a) for a in args))
    ns = {}
    exec(src, ns)
    return ns["f"]


class RefHolder:
    """R-holders: a plain dict of bound defaults plus the pure Python function."""

    def __init__(self, args, defaults):
        self.args = list(args)
        self.defaults = dict(defaults)

    def necessary(self):
        return [a for a in self.args if a not in self.defaults]

    def call(self, mapping):
        missing = [a for a in self.necessary() if a not in mapping]
        if missing:
            return ("missing", missing)
        return ("value", {a: (mapping[a] if a in mapping else self.defaults[a]) for a in self.args})

    def partial(self, mapping):
        if all(a in mapping for a in self.necessary()):
            return ("value", {a: (mapping[a] if a in mapping else self.defaults[a]) for a in self.args})
        d = dict(self.defaults)
        d.update({k: v for k, v in mapping.items() if k in self.args})
        return ("holder", RefHolder(self.args, d))


def observe(h):
    """Observable state of a real holder."""
    return (list(h.args), sorted((k, repr(v)) for k, v in h.defaults.items()), sorted(h.necessary_args))


def run_c13(case):
    from torchphysics.utils.user_fun import UserFunction, DomainUserFunction
    out, stats = [], {}
    args = case["args"]
    f = make_fun(args, case["n_defaults"], case)
    code_before = (f.__code__.co_code, f.__defaults__)
    ref0 = RefHolder(args, {a: default_of(case, a) for a in args[len(args) - case["n_defaults"]:]})
    cls = DomainUserFunction if case.get("domain_variant") else UserFunction
    holders = [(cls(f), ref0, False)]          # (real, reference, shares_dict_with_another_holder)
    log = []
    try:
        for op in case["history"]:
            name = op["op"]
            hi = op["h"] % len(holders)
            real, ref, shared = holders[hi]
            before = [observe(h) for h, _, _ in holders]
            mapping = dict(op.get("mapping", {}))
            user_map = dict(mapping)
            stats["ops_judged"] = stats.get("ops_judged", 0) + 1
            if name == "call":
                want = ref.call(mapping)
                arg = mapping
                if op.get("as_points") and mapping and not case.get("domain_variant"):
                    arg = mapping  # plain mapping (Points need tensors; values here are tags)
                try:
                    got = real(arg) if not case.get("domain_variant") else real.fun(**{a: (mapping[a] if a in mapping else real.defaults[a]) for a in real.args}) if False else _call_domain(real, arg)
                    res = ("value", got)
                except AssertionError:
                    res = ("missing", None)
                if want[0] == "missing":
                    if res[0] != "missing":
                        out.append(viol("C13", "call", "missing-required-name-not-rejected", "", missing=want[1]))
                elif res[0] == "missing":
                    out.append(viol("C13", "call", "rejected-although-all-required-names-given", ""))
                elif res[1] != want[1]:
                    out.append(viol("C13", "call", "arguments-not-bound-by-name", "", got=str(res[1])[:150], want=str(want[1])[:150]))
                log.append(["call", hi, res[0]])
            elif name == "partial":
                want = ref.partial(mapping)
                got = real.partially_evaluate(**mapping)
                if want[0] == "value":
                    if isinstance(got, (UserFunction,)):
                        out.append(viol("C13", "partial", "wrapper-returned-although-all-required-names-bound", ""))
                    elif got != want[1]:
                        out.append(viol("C13", "partial", "value-differs-from-full-evaluation", "", got=str(got)[:150], want=str(want[1])[:150]))
                else:
                    if not isinstance(got, UserFunction):
                        out.append(viol("C13", "partial", "value-returned-although-required-names-missing", ""))
                    else:
                        holders.append((got, want[1], False))
                log.append(["partial", hi, want[0]])
            elif name == "rewrap":
                new = cls(real)
                holders.append((new, ref, True))   # shares the defaults dict by design
                holders[hi] = (real, ref, True)
                log.append(["rewrap", hi])
            elif name == "deepcopy":
                new = copy.deepcopy(real)
                holders.append((new, RefHolder(ref.args, ref.defaults), False))
                log.append(["deepcopy", hi])
            elif name == "set_default":
                real.set_default(**mapping)
                ref.defaults.update({k: v for k, v in mapping.items() if k in ref.args})
                log.append(["set_default", hi])
                # a mutator of its own holder (and of holders that share the dict by design): not judged for isolation
                continue
            elif name == "remove_default":
                keys = [k for k in mapping if k in real.defaults]
                if keys:
                    real.remove_default(*keys)
                    for k in keys:
                        ref.defaults.pop(k, None)
                log.append(["remove_default", hi])
                continue
            # isolation: call / partial / wrap / copy change nothing observable anywhere
            after = [observe(h) for h, _, _ in holders[:len(before)]]
            if after != before:
                j = next(i for i in range(len(before)) if after[i] != before[i])
                out.append(viol("C13", "isolation", "operation-changed-a-holder", name, holder=j, op_holder=hi))
            if user_map != mapping:
                out.append(viol("C13", "isolation", "user-mapping-modified", name))
            if (f.__code__.co_code, f.__defaults__) != code_before:
                out.append(viol("C13", "isolation", "user-function-modified", name))
            # every holder still agrees with its reference model
            for j, (h, rf, _) in enumerate(holders):
                if sorted(h.necessary_args) != sorted(rf.necessary()):
                    out.append(viol("C13", "model", "necessary-args-differ-from-reference", name, holder=j,
                                    got=sorted(h.necessary_args), want=sorted(rf.necessary())))
                    break
        # copies and partial wrappers of the SUBCLASSES stay instances of their class (a DomainUserFunction post-processes
        # what the user's function returns; a copy that silently becomes a plain UserFunction does not)
        if args:
            dh = DomainUserFunction(f)
            dc = copy.deepcopy(dh)
            stats["subclass_copies"] = stats.get("subclass_copies", 0) + 1
            if type(dc) is not DomainUserFunction:
                out.append(viol("C13", "copy", "deepcopy-changes-the-wrapper-class", "", got=type(dc).__name__))
            req = [a for a in args if a not in dh.defaults]
            if len(req) >= 2:
                dp = dh.partially_evaluate(**{req[0]: "val_sub"})
                if isinstance(dp, UserFunction) and type(dp) is not DomainUserFunction:
                    out.append(viol("C13", "partial", "partial-wrapper-changes-the-wrapper-class", "", got=type(dp).__name__))
    except Exception as ex:
        out.append(viol("C13", "run", "raises:" + type(ex).__name__, innermost_site(ex.__traceback__),
                        msg=traceback.format_exc()[-300:]))
    feats = {"cell": "n%d|d%d|%s" % (len(args), case["n_defaults"], "dom" if case.get("domain_variant") else "usr"), "faulty": False}
    rec = {"violations": out, "stats": stats, "sim": {"fired": {}, "digest": None, "draw_calls": 0, "ops": len(case["history"]), "site_calls": {}},
           "steps": len(case["history"]), "rows": None, "features": feats, "digest_extra": log}
    rec["nontrivial"] = stats.get("ops_judged", 0) > 0
    rec["key"] = "%s|%s" % (feats["cell"], "-".join(l[0][:2] for l in log)[:60])
    rec["outcome"] = log[:8]
    return rec


def _call_domain(real, mapping):
    """DomainUserFunction: evaluate through its own call path with tensor values,
    then map the received tensors back to tags."""
    tens = {k: torch.tensor([[float(abs(hash(("v", str(v)))) % 9973)]]) for k, v in mapping.items()}
    back = {float(t): mapping[k] for k, t in tens.items()}
    # the function returns a dict: DomainUserFunction would try fun_eval[:, None] -> use evaluate via UserFunction.__call__
    from torchphysics.utils.user_fun import UserFunction
    got = UserFunction.__call__(real, tens)
    return {k: (back[float(v)] if isinstance(v, torch.Tensor) else v) for k, v in got.items()}
