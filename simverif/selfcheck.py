"""Setup command: imports, path assertions, schema validation of the known
findings file and MANIFEST.json.  Builds nothing (pure Python)."""
import json
import os


def selfcheck():
    import torch
    import pytorch_lightning  # noqa
    import torchphysics
    from .core import runner
    assert torchphysics.__file__.startswith("/repo/src"), torchphysics.__file__
    V = runner.VERIF
    man = json.load(open(os.path.join(V, "MANIFEST.json")))
    ids = [c["property_id"] for c in man["checks"]]
    na = [c["property_id"] for c in man.get("not_applicable", [])]
    props = [json.loads(l)["id"] for l in open(os.path.join(V, "properties.jsonl"))]
    assert sorted(ids + na) == sorted(props), "every property is claimed or listed not applicable"
    for f in runner.load_findings():
        assert f["status"] in ("open", "fixed"), f
        for w in f.get("witnesses", []):
            assert os.path.exists(os.path.join(V, w["file"])), w
    from .ref import selftest
    n_ref = selftest.run()
    import importlib
    for i in ids:
        importlib.import_module("simverif.props." + i.lower())
    print("selfcheck ok: torch %s, %d checks, %d not applicable, %d findings entries, %d reference-model unit checks" % (
        torch.__version__, len(ids), len(na), len(runner.load_findings()), n_ref))
    return 0
