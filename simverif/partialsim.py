"""partialsim -- histories of repeated / nested partial evaluation of
parameter-dependent domains (C17): D_{j+1} = D_j(**subset_j).  Sampling
agreement needs owned draws (SimRNG); 'the original is unchanged' is a statement
over the history."""
import traceback
import warnings

import numpy as np


def GG_q(x, step=64.0):
    return round(x * step) / step
import torch

from .core.simrng import SimRNG, SimBudgetExceeded
from .core.seed import H
from .ref import geometry as G
from . import tpbuild as B
from .geosim import viol, innermost_site, _points_of

warnings.filterwarnings("ignore")


def _params(pspace, vals):
    """Points of one parameter row for the variables in vals (ordered as pspace)."""
    names = [v for v, _ in pspace if v in vals]
    if not names:
        return B.Points.empty()
    return B.params_points([[v, 1] for v in names], [[vals[v] for v in names]])


def _answers(obj, dom_space, Pq, pspace, vals):
    """Membership answers of obj on the probe table Pq with parameter values vals."""
    pts = _points_of({"k": "_"}, Pq) if False else None
    cols, space = [], None
    for v, d in dom_space:
        cols.append(torch.tensor(Pq[v], dtype=torch.float32))
        s_ = B.mkspace(v, d)
        space = s_ if space is None else space * s_
    pts = B.Points(torch.cat(cols, dim=1), space)
    n = len(pts.as_tensor)
    names = [v for v, _ in pspace if v in vals]
    if names:
        par = B.params_points([[v, 1] for v in names], [[vals[v] for v in names]] * n)
    else:
        par = B.Points.empty()
    return torch.as_tensor(obj._contains(pts, par)).reshape(-1).double().numpy() > 0.5


def _bound_defaults(obj, depth=0, seen=None):
    """Names bound as defaults in every shape function reachable from a domain object."""
    from torchphysics.utils.user_fun import UserFunction
    seen = set() if seen is None else seen
    out = []
    if id(obj) in seen or depth > 6:
        return out
    seen.add(id(obj))
    for name, v in sorted(getattr(obj, "__dict__", {}).items()):
        if isinstance(v, UserFunction):
            out.append((name, sorted(v.defaults.keys()) if isinstance(v.defaults, dict) else None))
            out += _bound_defaults(v, depth + 1, seen)
        elif type(v).__module__.startswith("torchphysics.problem.domains"):
            out += [(name + "." + a, b) for a, b in _bound_defaults(v, depth + 1, seen)]
    return out


def snapshot(obj, dom_space, Pq, pspace, full, fixed=()):
    """Observable state of a domain object: declared needs, membership answers and volume with every variable that
    was NOT fixed on the way to this object supplied as a parameter (also default-valued ones), bound defaults."""
    need = sorted(obj.necessary_variables)
    bound = _bound_defaults(obj)
    r = _snapshot(obj, dom_space, Pq, pspace, full, need, fixed)
    return r + (bound,)


def _snapshot(obj, dom_space, Pq, pspace, full, need, fixed=()):
    vals = {v: full[v] for v, _ in pspace if v in full and v not in fixed}
    try:
        ans = _answers(obj, dom_space, Pq, pspace, vals)
    except Exception as ex:
        return (need, "raises:" + type(ex).__name__, None)
    try:
        vol = torch.as_tensor(obj.volume(_params(pspace, vals))).double().reshape(-1).numpy().tolist()
    except Exception as ex:
        vol = "raises:" + type(ex).__name__
    return (need, ans.tolist(), vol)


def tree_needs(obj, ast, path="root", depth=0):
    """Declared needs of every node of a torchphysics domain object against the free variables of the matching
    sub-expression (the clause holds for operands and inner nodes too, not only for the root)."""
    bad = []
    try:
        got = sorted(obj.necessary_variables)
    except Exception:
        return bad
    want = sorted(G.free_vars(ast))
    if got != want:
        bad.append((path, got, want))
    if depth > 6:
        return bad
    k = ast["k"]
    if k in ("union", "cut", "inter") and hasattr(obj, "domain_a") and hasattr(obj, "domain_b"):
        bad += tree_needs(obj.domain_a, ast["a"], path + ".a", depth + 1)
        bad += tree_needs(obj.domain_b, ast["b"], path + ".b", depth + 1)
    elif k in ("transl", "rot") and hasattr(obj, "domain"):
        bad += tree_needs(obj.domain, ast["d"], path + ".d", depth + 1)
    return bad


def run_c17(case):
    out, stats, log = [], {}, []
    dom = case["dom"]
    pspace = [tuple(p) for p in case["pspace"]]
    full = dict(case["full"])              # a value for every free variable
    sim = SimRNG(case["rng"], fault=case.get("fault"))
    dom_space = G.space(dom)
    with sim:
        try:
            D0 = B.build(dom)
            rng = np.random.default_rng(H(case["rng"], "probe") % (2 ** 32))
            row = {v: [full[v]] for v, _ in pspace}
            Pq = G.probe_points(dom, row, 120, rng)
            sq = G.structured_probes(dom, row, rng)
            if sq is not None:
                Pq = {v: np.concatenate([Pq[v], sq[v]], axis=0) if v in sq else Pq[v] for v in Pq}
            Pq = {v: a.astype(np.float32).astype(np.float64) for v, a in Pq.items()}
            n_probe = len(next(iter(Pq.values())))
            Pfull = dict(Pq)
            for v, _ in pspace:
                Pfull[v] = np.full((n_probe, 1), float(full[v]))
            if G.is_boundary(dom) or "pt" in G.kinds(dom):
                far = G.dev(dom, Pfull) > G.TOL_FAR
                truth = np.zeros(n_probe, bool)
            else:
                m = G.margin(dom, Pfull)
                far = np.abs(m) > G.TOL_FAR
                truth = m > 0
            tb = tree_needs(D0, dom)
            if tb:
                out.append(viol("C17", "necessary-variables", "inner-node-declares-other-needs-than-its-free-variables", "",
                                node=tb[0][0], got=tb[0][1], want=tb[0][2]))
            objs = [D0]
            fixeds = [frozenset()]
            asts = [dom]
            theta = {}
            snaps = [snapshot(D0, dom_space, Pq, pspace, full)]
            for step in case["steps"]:
                sim.begin_op()
                vals = {}
                for v, val in step["vals"].items():
                    vals[v] = torch.tensor([[float(val)]]) if step.get("as_tensor") else float(val)
                src = objs[step.get("on", -1)] if step.get("on") is not None else objs[-1]
                src_fixed = fixeds[step.get("on", -1)] if step.get("on") is not None else fixeds[-1]
                src_ast = asts[step.get("on", -1)] if step.get("on") is not None else asts[-1]
                try:
                    Dn = src(**vals)
                except Exception as ex:
                    out.append(viol("C17", "call", "raises:" + type(ex).__name__, innermost_site(ex.__traceback__),
                                    msg=str(ex)[:160]))
                    break
                ast_n = G.subst(src_ast, {k: float(v) for k, v in step["vals"].items()})
                objs.append(Dn)
                fixeds.append(frozenset(src_fixed | set(step["vals"])))
                asts.append(ast_n)
                stats["steps_judged"] = stats.get("steps_judged", 0) + 1
                log.append(sorted(step["vals"]))
                # 1. declared needs == free variables
                want_free = sorted(G.free_vars(ast_n))
                got_free = sorted(Dn.necessary_variables)
                if got_free != want_free:
                    out.append(viol("C17", "necessary-variables", "not-the-free-variables", "", got=got_free, want=want_free))
                rest = {v: full[v] for v in want_free}
                # 2. membership agrees with the original at theta u rest and with the reference
                try:
                    a_new = _answers(Dn, dom_space, Pq, pspace, rest)
                    a_old = np.array(snaps[0][1]) if not isinstance(snaps[0][1], str) else a_new
                    # the evaluated values may differ from `full` (a step fixes its own value)
                    fixed = {k: float(v) for s_ in case["steps"][:len(objs) - 1] for k, v in s_["vals"].items()}
                    if all(abs(fixed.get(k, full[k]) - full[k]) < 1e-12 for k in full):
                        bad = far & (a_new != a_old)
                        if bad.any():
                            out.append(viol("C17", "membership", "differs-from-original-at-the-fixed-values", "",
                                            rows_bad=int(bad.sum())))
                        bad2 = far & (a_new != truth)
                        if bad2.any() and not (far & (a_old != truth)).any():
                            out.append(viol("C17", "membership", "differs-from-reference", "", rows_bad=int(bad2.sum())))
                except Exception as ex:
                    out.append(viol("C17", "membership", "raises:" + type(ex).__name__, innermost_site(ex.__traceback__),
                                    msg=str(ex)[:160]))
                # 3. volume and bounding box agree
                try:
                    v_new = torch.as_tensor(Dn.volume(_params(pspace, rest))).double().reshape(-1).numpy()
                    v_old = torch.as_tensor(D0.volume(_params(pspace, full))).double().reshape(-1).numpy()
                    if v_new.shape != v_old.shape or not np.allclose(v_new, v_old, rtol=1e-5, atol=1e-7):
                        out.append(viol("C17", "volume", "differs-from-original-at-the-fixed-values", "",
                                        got=v_new.tolist()[:2], want=v_old.tolist()[:2]))
                    if not any(k_ in ("transl", "rot") for k_ in G.kinds(dom)):
                        b_new = torch.as_tensor(Dn.bounding_box(_params(pspace, rest))).double().reshape(-1).numpy()
                        b_old = torch.as_tensor(D0.bounding_box(_params(pspace, full))).double().reshape(-1).numpy()
                        if b_new.shape != b_old.shape or not np.allclose(b_new, b_old, rtol=1e-5, atol=1e-5):
                            out.append(viol("C17", "bounding-box", "differs-from-original-at-the-fixed-values", "",
                                            got=b_new.tolist(), want=b_old.tolist()))
                except Exception as ex:
                    out.append(viol("C17", "volume-or-box", "raises:" + type(ex).__name__, innermost_site(ex.__traceback__),
                                    msg=str(ex)[:160]))
                # 4. sampling agrees: points of D_j lie in the set denoted at theta u rest, same count
                try:
                    n = case["n"]
                    pts = Dn.sample_random_uniform(n=n, params=_params(pspace, rest))
                    t = pts.as_tensor
                    if len(t) != n:
                        out.append(viol("C17", "sampling", "count-differs", "", rows=len(t), n=n))
                    else:
                        P = B.table(pts)
                        for v, _ in pspace:
                            P[v] = np.full((n, 1), float(full[v]))
                        d = G.dev(dom, P)
                        stats["rows_judged"] = stats.get("rows_judged", 0) + n
                        if (d > G.TOL_ON).any():
                            out.append(viol("C17", "sampling", "sample-outside-the-set-at-the-fixed-values", "",
                                            worst=float(d.max())))
                except SimBudgetExceeded:
                    row_full = {v: [full[v]] for v, _ in pspace}
                    if G.acceptance_floor(dom, row_full, rng) < 0.05 or sim.fired:
                        stats["slow_low_acceptance"] = 1   # legitimate: a nearly empty piece at these values
                    else:
                        out.append(viol("C17", "sampling", "draw-budget-exceeded", ""))
                except Exception as ex:
                    out.append(viol("C17", "sampling", "raises:" + type(ex).__name__, innermost_site(ex.__traceback__),
                                    msg=str(ex)[:160]))
                # 4b. a moving fixed shape (the inner expression no longer depends on anything, the motion still does):
                # the raw grid call with several parameter rows returns equal blocks, block i in the set of row i
                try:
                    if ast_n["k"] in ("transl", "rot") and ast_n["d"]["k"] in ("par", "tri") \
                            and not G.free_vars(ast_n["d"]) and len(want_free) == 1 \
                            and not G.is_boundary(ast_n) and not sim.fault:
                        fv_ = want_free[0]
                        vals_ = [full[fv_], GG_q(full[fv_] * 0.5 + 0.05), GG_q(1.0 - 0.5 * full[fv_])]
                        ng = max(2, int(case["n"]))
                        pr_ = B.params_points([[fv_, 1]], [[v_] for v_ in vals_])
                        tg = Dn.sample_grid(n=ng, params=pr_).as_tensor.detach().double().numpy()
                        if len(tg) % 3 == 0 and len(tg) >= 3 * ng:
                            m_ = len(tg) // 3
                            vname = dom_space[0][0]
                            for bi_, v_ in enumerate(vals_):
                                Pb = {vname: tg[bi_ * m_:(bi_ + 1) * m_], fv_: np.full((m_, 1), float(v_))}
                                dd_ = G.dev(ast_n, Pb)
                                stats["multi_row_grid_blocks"] = stats.get("multi_row_grid_blocks", 0) + 1
                                if (dd_ > G.TOL_ON).any():
                                    out.append(viol("C17", "sampling", "grid-block-outside-the-set-of-its-parameter-row", "",
                                                    worst=float(dd_.max()), block=bi_))
                                    break
                        else:
                            out.append(viol("C17", "sampling", "multi-row-grid-count", "", rows=len(tg), n=ng))
                except Exception as ex:
                    out.append(viol("C17", "sampling", "raises:" + type(ex).__name__, innermost_site(ex.__traceback__) + ":multi-row-grid",
                                    msg=str(ex)[:160]))
                # 5. every earlier domain is unchanged
                for i, (o, s0) in enumerate(zip(objs[:-1], snaps)):
                    s1 = snapshot(o, dom_space, Pq, pspace, full, fixeds[i])
                    if s1 != s0:
                        what = "necessary-variables" if s1[0] != s0[0] else ("membership" if s1[1] != s0[1] else (
                            "volume" if s1[2] != s0[2] else "bound-defaults-of-shape-functions"))
                        out.append(viol("C17", "original-unchanged", "earlier-domain-changed:" + what, "", index=i))
                        break
                snaps.append(snapshot(Dn, dom_space, Pq, pspace, full, fixeds[-1]))
        except Exception as ex:
            out.append(viol("C17", "run", "raises:" + type(ex).__name__, innermost_site(ex.__traceback__),
                            msg=traceback.format_exc()[-400:]))
    ks = G.kinds(dom)
    feats = {"cell": "%s|%dvars|%dsteps" % ("+".join(sorted(set(ks))), len(pspace), len(case["steps"])),
             "root": dom["k"], "kinds": "+".join(sorted(set(ks))), "faulty": bool(case.get("fault")),
             "has_prod": "prod" in ks, "has_single_side": any(k in ("bleft", "bright") for k in ks),
             "has_flag": '"contained": true' in __import__("json").dumps(dom) or '"disjoint": true' in __import__("json").dumps(dom)}
    rec = {"violations": out, "stats": stats, "sim": sim.summary(), "steps": len(case["steps"]), "rows": None,
           "features": feats, "digest_extra": log}
    rec["nontrivial"] = stats.get("steps_judged", 0) > 0
    rec["key"] = "%s|%s|%s" % (feats["cell"], log, "+".join(sorted(rec["sim"]["fired"])))
    rec["outcome"] = log
    return rec
