"""volumesim -- the history and statistics clauses of C10:
(iii) pooled mean count of density sampling on rejection-based shapes / Boolean
combinations against density x true measure; (iv) set_volume histories: a user-set
volume must win in volume(), density sampling, partial evaluation, translation,
rotation, products and unions."""
import math
import traceback
import warnings

import numpy as np
import torch

from .core.simrng import SimRNG
from .core.seed import H
from .ref import geometry as G
from . import tpbuild as B
from .geosim import viol, innermost_site, true_measure

warnings.filterwarnings("ignore")


def run_count(case):
    out, stats = [], {}
    dom = case["dom"]
    sim = SimRNG(case["rng"], fault=None, budget_calls=10 ** 6, budget_elems=int(2e9))
    rng = np.random.default_rng(H(case["rng"], "ref") % (2 ** 32))
    with sim:
        try:
            D = B.build(dom)
            mu, rel = true_measure(dom, {}, rng, n=400000)
            d = float(case["d"])
            counts = []
            for _ in range(case["calls"]):
                sim.begin_op()
                if case.get("via") == "sampler":
                    import torchphysics as tp
                    pts = tp.samplers.RandomUniformSampler(D, density=d).sample_points()
                else:
                    pts = D.sample_random_uniform(d=d)
                counts.append(len(pts.as_tensor))
            c = np.asarray(counts, float)
            want = d * mu
            se = math.sqrt(c.var(ddof=1) / len(c) + (want * rel) ** 2 + 0.25 / len(c))
            # "up to rounding": every primitive leaf rounds its own count up once
            slack = sum(1 for k_ in G.kinds(dom) if k_ in ("iv", "circ", "par", "tri", "sph"))
            z = math.copysign(max(0.0, abs(c.mean() - want) - slack), c.mean() - want) / max(se, 1e-9)
            stats["count_tests"] = 1
            stats["max_abs_z"] = abs(z)
            from scipy import stats as sps
            thr = float(sps.t.isf(5e-10, len(c) - 1))      # alpha = 1e-9 two-sided, variance estimated from the calls
            if abs(z) > thr:
                out.append(viol("C10", "density-mean-count", "mean-count-differs-from-density-times-measure", "",
                                mean=float(c.mean()), want=want, z=z, calls=len(c)))
        except Exception as ex:
            out.append(viol("C10", "run", "raises:" + type(ex).__name__, innermost_site(ex.__traceback__),
                            msg=traceback.format_exc()[-300:]))
    return _rec(case, out, stats, sim, "count")


def run_hist(case):
    """set_volume histories."""
    import torchphysics as tp
    out, stats, log = [], {}, []
    dom = case["dom"]
    pspace = [tuple(p) for p in case.get("pspace") or []]
    tval = case.get("t", 0.5)
    sim = SimRNG(case["rng"], fault=None)
    with sim:
        try:
            D = B.build(dom)
            v = case["volume"]                          # {"c": 7.5} or {"aff": [a, b]} of t
            if "c" in v:
                form = v.get("as", "float")     # users pass numbers, 0-dim tensors or (1,1) tensors
                D.set_volume(float(v["c"]) if form == "float" else
                             (torch.tensor(float(v["c"])) if form == "tensor0" else torch.tensor([[float(v["c"])]])))
                want = float(v["c"])
            else:
                a, b = v["aff"]
                D.set_volume(lambda t: a + b * t)
                want = a + b * tval
            params = B.params_points(pspace, [[tval]] if pspace else [])

            def val(x):
                return float(torch.as_tensor(x).reshape(-1)[0])
            # the last step of every history: the user-set value is still what volume() reports
            for op in list(case["ops"]) + ["volume"]:
                stats["ops_judged"] = stats.get("ops_judged", 0) + 1
                log.append(op)
                try:
                    if op == "volume":
                        got = val(D.volume(params))
                        if not math.isclose(got, want, rel_tol=1e-5):
                            out.append(viol("C10", "user-volume", "volume()-ignores-user-set-volume", "", got=got, want=want))
                    elif op == "density":
                        d = case["d"]
                        sim.begin_op()
                        n = len(D.sample_random_uniform(d=d, params=params).as_tensor)
                        w = math.ceil(d * want * (1 - 1e-6)), math.ceil(d * want * (1 + 1e-6))
                        if case.get("exact_count") and not (w[0] <= n <= w[1]):
                            out.append(viol("C10", "user-volume", "density-count-ignores-user-set-volume", "", rows=n, want=w[1]))
                    elif op == "call" and pspace:
                        De = D(t=torch.tensor([[float(tval)]]))
                        got = val(De.volume())
                        if not math.isclose(got, want, rel_tol=1e-5):
                            out.append(viol("C10", "user-volume", "partial-evaluation-drops-user-set-volume", "", got=got, want=want))
                    elif op == "translate":
                        T = tp.domains.Translate(D, [0.5, -0.25] if G.space(dom)[0][1] == 2 else [0.5])
                        got = val(T.volume(params))
                        if not math.isclose(got, want, rel_tol=1e-5):
                            out.append(viol("C10", "user-volume", "translation-drops-user-set-volume", "", got=got, want=want))
                    elif op == "rotate" and G.space(dom)[0][1] == 2:
                        R = tp.domains.Rotate.from_angles(D, 0.7)
                        got = val(R.volume(params))
                        if not math.isclose(got, want, rel_tol=1e-5):
                            out.append(viol("C10", "user-volume", "rotation-drops-user-set-volume", "", got=got, want=want))
                    elif op == "product":
                        I = tp.domains.Interval(tp.spaces.R1("s"), 0.0, 1.5)
                        got = val((D * I).volume(params))
                        if not math.isclose(got, want * 1.5, rel_tol=1e-5):
                            out.append(viol("C10", "user-volume", "product-ignores-user-set-volume", "", got=got, want=want * 1.5))
                    elif op == "union":
                        from torchphysics.problem.domains.domainoperations.union import UnionDomain
                        sp = B.mkspace(*G.space(dom)[0])
                        other = tp.domains.Circle(sp, [40.0, 40.0], 1.0) if G.space(dom)[0][1] == 2 else tp.domains.Interval(sp, 40.0, 41.0)
                        om = math.pi if G.space(dom)[0][1] == 2 else 1.0
                        got = val(UnionDomain(D, other, disjoint=True).volume(params))
                        if not math.isclose(got, want + om, rel_tol=1e-5):
                            out.append(viol("C10", "user-volume", "disjoint-union-ignores-user-set-volume", "", got=got, want=want + om))
                except Exception as ex:
                    out.append(viol("C10", "user-volume", "raises:" + type(ex).__name__, op, msg=str(ex)[:160]))
        except Exception as ex:
            out.append(viol("C10", "run", "raises:" + type(ex).__name__, innermost_site(ex.__traceback__),
                            msg=traceback.format_exc()[-300:]))
    return _rec(case, out, stats, sim, "hist")


def _rec(case, out, stats, sim, kind):
    dom = case["dom"]
    ks = G.kinds(dom)
    feats = {"cell": "%s|%s" % (kind, "+".join(sorted(set(ks)))), "kinds": "+".join(sorted(set(ks))), "root": dom["k"],
             "faulty": False, "engine": kind, "dep": bool(G.free_vars(dom)), "mode": "d", "entry": "volumesim:" + kind,
             "k": "1" if case.get("pspace") else "0", "n1": False, "filter": False, "boundary": G.is_boundary(dom)}
    rec = {"violations": out, "stats": stats, "sim": sim.summary(), "steps": len(case.get("ops", [])) + case.get("calls", 0),
           "rows": None, "features": feats, "digest_extra": [round(stats.get("max_abs_z", 0), 6), len(out)]}
    rec["nontrivial"] = bool(stats.get("count_tests") or stats.get("ops_judged"))
    rec["key"] = "%s|%s|%s" % (feats["cell"], case.get("d"), case.get("ops"))
    rec["outcome"] = dict(stats)
    return rec


def run_pe(case):
    """Partial evaluations of ONE original domain whose shape function has two outer variables: every evaluated
    domain, given the remaining variable as a parameter row, must report the reference measure at exactly the
    values of its own step (the original and earlier results must not leak values into later ones)."""
    out, stats, log = [], {}, []
    dom = case["dom"]
    sim = SimRNG(case["rng"], fault=None)
    with sim:
        try:
            D = B.build(dom)
            kept = []
            for step, op in enumerate(case["ops"]):
                fix, rest = op["fix"], op["rest"]
                De = D(**{v: torch.tensor([[float(x)]]) for v, x in fix.items()})
                kept.append((De, fix, rest))
                for (Dk, fk, rk) in (kept if op.get("recheck") else kept[-1:]):
                    pspace = [(v, 1) for v in sorted(rk)]
                    params = B.params_points(pspace, [[rk[v] for v, _ in pspace]] if pspace else [])
                    got = float(torch.as_tensor(Dk.volume(params)).reshape(-1)[0])
                    P = {v: np.asarray([[float(x)]]) for v, x in {**fk, **rk}.items()}
                    want = float(G.measure(dom, P, 1)[0])
                    stats["volumes_direct"] = stats.get("volumes_direct", 0) + 1
                    stats["ops_judged"] = stats.get("ops_judged", 0) + 1
                    if not math.isclose(got, want, rel_tol=1e-4, abs_tol=1e-7):
                        out.append(viol("C10", "partial-evaluation", "volume-of-evaluated-domain-differs-from-measure-at-its-values", "",
                                        got=got, want=want, step=step, fixed=sorted(fk)))
                        break
                log.append(["pe", sorted(fix)])
            # the original with everything supplied
            full = case["full"]
            pspace = [(v, 1) for v in sorted(full)]
            got = float(torch.as_tensor(D.volume(B.params_points(pspace, [[full[v] for v, _ in pspace]]))).reshape(-1)[0])
            want = float(G.measure(dom, {v: np.asarray([[float(x)]]) for v, x in full.items()}, 1)[0])
            stats["volumes_direct"] = stats.get("volumes_direct", 0) + 1
            if not math.isclose(got, want, rel_tol=1e-4, abs_tol=1e-7):
                out.append(viol("C10", "partial-evaluation", "volume-of-the-original-changed", "", got=got, want=want))
        except Exception as ex:
            out.append(viol("C10", "run", "raises:" + type(ex).__name__, innermost_site(ex.__traceback__),
                            msg=traceback.format_exc()[-300:]))
    return _rec(case, out, stats, sim, "pe")
