"""condsim -- conditions under an owned draw stream (C04, C14).

Seams: a recording proxy around every sampler (returns the real sample and
keeps a copy), a *probe* residual that stores the keyword arguments it receives
and returns a generated expression of them, a real torchphysics ``Model`` whose
output is a known closed form of its named inputs.  The construction recipe (the
case spec) can be run again, which is how C14 builds its solo worlds -- nothing
is deep-copied (spaces do not pickle).
"""
import math
import traceback
import warnings

import torch

from .core.simrng import SimRNG
from .core.seed import H
from .geosim import viol, innermost_site

warnings.filterwarnings("ignore")


# ------------------------------------------------------------ the recipe
def spaces():
    import torchphysics as tp
    return {"x": tp.spaces.R2("x"), "t": tp.spaces.R1("t"), "u1": tp.spaces.R1("u"), "u2": tp.spaces.R2("u"),
            "k": tp.spaces.R1("k")}


def make_model(order, out_dim, w0):
    """Closed form u = [sin(w x0) x1 + 0.5 t, x0^2 - w t] of its *named* inputs."""
    import torchphysics as tp
    sp = spaces()
    isp = None
    for v in order:
        isp = sp[v] if isp is None else isp * sp[v]

    class ClosedForm(tp.models.Model):
        def __init__(self):
            super().__init__(isp, sp["u1"] if out_dim == 1 else sp["u2"])
            self.w = torch.nn.Parameter(torch.tensor(float(w0)))

        def forward(self, points):
            points = self._fix_points_order(points)
            c = points.coordinates
            x = c["x"]
            t = c["t"] if "t" in c else torch.zeros_like(x[..., :1])
            u0 = torch.sin(self.w * x[..., :1]) * x[..., 1:2] + 0.5 * t
            if out_dim == 1:
                return tp.spaces.Points(u0, self.output_space)
            u1 = x[..., :1] ** 2 - self.w * t
            return tp.spaces.Points(torch.cat([u0, u1], dim=-1), self.output_space)
    return ClosedForm()


def closed_form(w, x, t, out_dim):
    u0 = torch.sin(w * x[..., :1]) * x[..., 1:2] + 0.5 * t
    if out_dim == 1:
        return u0
    return torch.cat([u0, x[..., :1] ** 2 - w * t], dim=-1)


def data_fun(args):
    """User data function of the given argument names (rebuilt per recipe run)."""
    if args == ["x"]:
        return lambda x: torch.cos(2.0 * x[..., :1]) * x[..., 1:2]
    if args == ["t"]:
        return lambda t: 0.5 * t + 1.0
    if args == ["x", "t"]:
        return lambda x, t: torch.cos(2.0 * x[..., :1]) * x[..., 1:2] + 0.5 * t
    if args == ["t", "x"]:
        return lambda t, x: torch.cos(2.0 * x[..., :1]) * x[..., 1:2] + 0.5 * t
    raise ValueError(args)


def data_value(args, x, t):
    if args == ["x"]:
        return torch.cos(2.0 * x[..., :1]) * x[..., 1:2]
    if args == ["t"]:
        return 0.5 * t + 1.0
    return torch.cos(2.0 * x[..., :1]) * x[..., 1:2] + 0.5 * t


def make_domain(name):
    import torchphysics as tp
    X = tp.spaces.R2("x")
    D = tp.domains
    if name == "square":
        return D.Parallelogram(X, [0, 0], [1, 0], [0, 1])
    if name == "disc":
        return D.Circle(X, [0.5, 0.5], 0.5)
    if name == "ring":
        return D.Circle(X, [0.5, 0.5], 0.5) - D.Circle(X, [0.5, 0.5], 0.2)
    if name == "bsquare":
        return D.Parallelogram(X, [0, 0], [1, 0], [0, 1]).boundary
    if name == "pdisc":
        # a shape function of TWO outer variables: users fix one of them per condition (dom(a=...)) and let the
        # product sampler supply the other
        return D.Circle(X, [0.5, 0.5], lambda t, a: 0.2 + 0.1 * t + 0.15 * a)
    raise ValueError(name)


def make_x_sampler(sx, shared_domains=None):
    import torchphysics as tp
    S = tp.samplers
    if sx["dom"] == "tring":
        # geometry DERIVED from a (possibly shared) domain: the disc minus a hole whose radius moves with t
        base = (shared_domains or {}).get("disc") or make_domain("disc")
        dom = base - tp.domains.Circle(tp.spaces.R2("x"), [0.5, 0.5], lambda t: 0.1 + 0.05 * t)
        cls = {"random": S.RandomUniformSampler, "grid": S.GridSampler, "lhs": S.LHSSampler}[sx["kind"]]
        return cls(dom, n_points=sx["n"])
    dom = (shared_domains or {}).get(sx["dom"]) or make_domain(sx["dom"])
    if sx["dom"] == "pdisc":
        dom = dom(a=float(sx.get("a", 0.0)))       # partial evaluation of the (possibly shared) domain
    cls = {"random": S.RandomUniformSampler, "grid": S.GridSampler, "lhs": S.LHSSampler}[sx["kind"]]
    return cls(dom, n_points=sx["n"])


def make_sampler(spec, shared_domains=None, shared_x=None):
    import torchphysics as tp
    S = tp.samplers
    sx = spec["x"]
    # shared_x: ONE non-static sampler object over x handed to several conditions (alone, or as a factor of a product)
    s = shared_x if (shared_x is not None and spec.get("share_x")) else make_x_sampler(sx, shared_domains)
    if spec.get("t"):
        st = spec["t"]
        T = tp.domains.Interval(tp.spaces.R1("t"), 0.0, 2.0)
        ct = {"random": S.RandomUniformSampler, "grid": S.GridSampler}[st["kind"]]
        if spec.get("static_factor"):
            # the x-factor frozen on its own (it then receives the partner's points as parameters at every call)
            s = s.make_static() * ct(T, n_points=st["n"]).make_static()
        else:
            s = s * ct(T, n_points=st["n"])
    if spec.get("static") == "inf":
        s = s.make_static()
    elif spec.get("static"):
        s = s.make_static(int(spec["static"]))
    return s


class Probe:
    """Residual that records what it is given."""

    def __init__(self, args, coef, out_dim, grad_of=None, defaults=(), extra=None):
        self.args, self.coef, self.out_dim, self.grad_of = list(args), dict(coef), out_dim, grad_of
        self.calls = []
        self.defaults = [a for a in defaults if a in args]      # supplied by the condition, but declared with a default
        self.extra = dict(extra or {})                          # never supplied: the declared default must arrive
        sig = [a for a in args if a not in self.defaults] + ["%s=-7.5" % a for a in self.defaults] + \
              ["%s=%r" % (n, float(v)) for n, v in self.extra.items()]
        allnames = list(args) + list(self.extra)
        src = "def resid(%s):\n    return _probe._run(dict(%s))\n" % (
            ", ".join(sig), ", ".join("%s=%s" % (a, a) for a in allnames))
        ns = {"_probe": self}
        exec(src, ns)
        self.fn = ns["resid"]

    def _run(self, kw):
        rec = {k: v for k, v in kw.items()}
        total = None
        for a in self.args:
            v = kw[a]
            if a.endswith("_integral"):
                # integrate (mean) over the integral points: (n_x, n_int, .) -> (n_x, .), (1, n_int, .) -> (1, .)
                v = torch.mean(v, dim=1)
                v = v if a.startswith("u") else v[..., :1]
            elif v.dim() == 3:
                v = v[:, 0, :]
            if a.startswith("u"):
                term = self.coef.get(a, 1.0) * v
            elif a.startswith("x"):
                term = self.coef.get(a, 1.0) * v[..., :1]
            else:
                term = self.coef.get(a, 1.0) * v
            total = term if total is None else total + term
        for n in self.extra:
            total = total + 0.5 * kw[n]
        if self.grad_of and self.grad_of[0] in kw and self.grad_of[1] in kw:
            u, z = kw[self.grad_of[0]], kw[self.grad_of[1]]
            if z.requires_grad:
                rec["__grad__"] = torch.autograd.grad(u[..., :1].sum(), z, create_graph=True)[0]
        self.calls.append(rec)
        self.returned = total
        return total


def record_sampler(s, store):
    orig = s.sample_points

    def sp(*a, **k):
        o = orig(*a, **k)
        store.append(o.as_tensor.detach().clone() if not o.isempty else None)
        store_spaces.append(list(o.space.keys()) if not o.isempty else [])
        return o
    store_spaces = []
    s.sample_points = sp
    s._sv_spaces = store_spaces
    return s


def build_condition(cs, shared=None):
    """Run the recipe for one condition; ``shared`` carries user objects handed to several."""
    import torchphysics as tp
    shared = shared or {}
    sp = spaces()
    kind = cs["kind"]
    b = {"spec": cs}
    model = shared.get("model") or make_model(cs["order"], cs["out_dim"], cs.get("w0", 1.3))
    b["model"] = model
    param = None
    if cs.get("use_param"):
        param = shared.get("param") or tp.models.Parameter(float(cs.get("k0", 0.7)), sp["k"])
    b["param"] = param
    probe = Probe(cs["resid_args"], cs.get("coef", {}), cs["out_dim"], tuple(cs["grad_of"]) if cs.get("grad_of") else None,
                  defaults=cs.get("resid_defaults") or (), extra=cs.get("resid_extra"))
    b["probe"] = probe
    kw = {"name": cs.get("name", kind), "weight": float(cs.get("weight", 1.0))}
    if param is not None:
        kw["parameter"] = param
    dfs = None
    if cs.get("data_fns"):
        if "data_dict" in shared:
            dfs = shared["data_dict"]                   # the *same* dict object in several conditions
        else:
            dfs = {name: data_fun(list(args)) for name, args in cs["data_fns"].items()}
            if cs.get("wrap_user_fun"):
                # users may hand over already wrapped functions
                from torchphysics.utils import UserFunction
                dfs = {k: UserFunction(v) for k, v in dfs.items()}
        kw["data_functions"] = dfs
        b["user_dict"] = dfs
        b["user_dict_snapshot"] = {k: v for k, v in dfs.items()}
    samples = []
    b["samples"] = samples
    if kind == "data":
        n = cs["n"]
        g = torch.Generator().manual_seed(int(cs.get("dseed", 5)))
        xs = torch.rand(n, 2, generator=g)
        ts = torch.rand(n, 1, generator=g) * 2
        ys = torch.rand(n, cs["out_dim"], generator=g)
        cols, space = [], None
        for v in cs["data_order"]:
            cols.append(xs if v == "x" else ts)
            space = sp[v] if space is None else space * sp[v]
        inp = tp.spaces.Points(torch.cat(cols, dim=1), space)
        b["data"] = (xs, ts, ys)
        dl = tp.utils.PointsDataLoader((inp, tp.spaces.Points(ys, model.output_space)), batch_size=cs.get("batch", n))
        b["cond"] = tp.conditions.DataCondition(model, dl, norm=cs["norm"], root=cs.get("root", 1.0),
                                                use_full_dataset=bool(cs.get("full")), name=kw["name"], weight=kw["weight"])
        return b
    if kind == "periodic":
        T = tp.domains.Interval(sp["t"], 0.0, 2.0)
        sx = cs["sampler"]["x"]
        dom = (shared.get("domains") or {}).get(sx["dom"]) or make_domain(sx["dom"])
        cls = {"random": tp.samplers.RandomUniformSampler, "grid": tp.samplers.GridSampler, "lhs": tp.samplers.LHSSampler}[sx["kind"]]
        nps = cls(dom, n_points=sx["n"])
        if cs["sampler"].get("share_x") and shared.get("sampler_x") is not None:
            nps = shared["sampler_x"]
        if cs["sampler"].get("static") == "inf":
            nps = nps.make_static()
        record_sampler(nps, samples)
        b["sampler"] = nps
        b["cond"] = tp.conditions.PeriodicCondition(model, T, probe.fn, non_periodic_sampler=nps, **kw)
        return b
    smp = shared.get("sampler") or make_sampler(cs["sampler"], shared.get("domains"), shared.get("sampler_x"))
    record_sampler(smp, samples)
    b["sampler"] = smp
    if kind == "integro":
        T = tp.domains.Interval(sp["t"], 0.0, 2.0)
        ci = {"random": tp.samplers.RandomUniformSampler, "grid": tp.samplers.GridSampler}[cs["int_sampler"]["kind"]]
        isamp = ci(T, n_points=cs["int_sampler"]["n"])
        b["int_samples"] = []
        record_sampler(isamp, b["int_samples"])
        b["int_sampler"] = isamp
        b["cond"] = tp.conditions.IntegroPINNCondition(model, smp, probe.fn, isamp, **kw)
        return b
    if kind == "pinn":
        b["cond"] = tp.conditions.PINNCondition(model, smp, probe.fn, **kw)
    elif kind == "mean":
        b["cond"] = tp.conditions.MeanCondition(model, smp, probe.fn, **kw)
    elif kind == "single":
        ef = (lambda r: torch.sum(torch.abs(r), dim=1))
        rf = {"max": torch.max, "sum": torch.sum, "mean": torch.mean}[cs.get("reduce", "max")]
        b["cond"] = tp.conditions.SingleModuleCondition(model, smp, probe.fn, error_fn=ef, reduce_fn=rf, **kw)
    elif kind == "adaptw":
        b["cond"] = tp.conditions.AdaptiveWeightsCondition(model, smp, probe.fn, **kw)
    else:
        raise ValueError(kind)
    return b


# ------------------------------------------------------------- R-reduce
def expected_loss(b, resid):
    kind = b["spec"]["kind"]
    r = resid.detach().double()
    if kind in ("pinn", "periodic", "integro"):
        return float(torch.mean(torch.sum(r ** 2, dim=1)))
    if kind == "mean":
        return float(torch.mean(r))
    if kind == "single":
        e = torch.sum(torch.abs(r), dim=1)
        return float({"max": torch.max, "sum": torch.sum, "mean": torch.mean}[b["spec"].get("reduce", "max")](e))
    if kind == "adaptw":
        w = b["cond"].adaptive_layer.weight.detach().double()
        return float(torch.mean(w * torch.sum(r ** 2, dim=1)))
    raise ValueError(kind)


def check_eval(b, loss, n_before, out, stats, prop="C04", eval_no=0):
    """Oracle for one evaluation of a sampler-based condition."""
    cs = b["spec"]
    probe = b["probe"]
    kind = cs["kind"]
    if len(probe.calls) != n_before + 1:
        out.append(viol(prop, "probe", "residual-not-called-exactly-once", kind, calls=len(probe.calls) - n_before))
        return
    call = probe.calls[-1]
    got_names = sorted(k for k in call if k != "__grad__")
    want_names = sorted(list(cs["resid_args"]) + list(cs.get("resid_extra") or {}))
    if got_names != want_names:
        out.append(viol(prop, "names", "residual-received-other-names", kind, got=got_names, want=want_names))
        return
    for n_, v_ in (cs.get("resid_extra") or {}).items():
        if isinstance(call[n_], torch.Tensor) or float(call[n_]) != float(v_):
            out.append(viol(prop, "args", "absent-optional-argument-did-not-get-its-default", kind, name=n_))
            return
    for n_ in (cs.get("resid_defaults") or ()):
        if n_ in call and not isinstance(call[n_], torch.Tensor):
            out.append(viol(prop, "args", "supplied-argument-replaced-by-its-default", kind, name=n_, got=float(call[n_])))
            return
    if not b["samples"] or b["samples"][-1] is None:
        return
    smp = b["samples"][-1]
    names = b["sampler"]._sv_spaces[-1]
    dims = {"x": 2, "t": 1}
    cols, j = {}, 0
    for v in names:
        cols[v] = smp[:, j:j + dims[v]]
        j += dims[v]
    w = b["model"].w.detach()
    stats["evals_judged"] = stats.get("evals_judged", 0) + 1
    if kind == "periodic":
        x = cols["x"]
        n = len(x)
        for side, tv in (("left", 0.0), ("right", 2.0)):
            t = torch.full((n, 1), tv)
            if "t_" + side in call and not torch.allclose(call["t_" + side].detach(), t):
                out.append(viol(prop, "args", "periodic-side-points-wrong", side))
            if "u_" + side in call:
                wantu = closed_form(w, x, t, cs["out_dim"])
                if not torch.allclose(call["u_" + side].detach(), wantu, rtol=1e-5, atol=1e-6):
                    out.append(viol(prop, "args", "model-output-not-at-the-side-points", side))
            for fname, fargs in (cs.get("data_fns") or {}).items():
                key = "%s_%s" % (fname, side)
                if key in call:
                    wantf = data_value(list(fargs), x, t)
                    if call[key].shape != wantf.shape or not torch.allclose(call[key].detach(), wantf, rtol=1e-5, atol=1e-6):
                        out.append(viol(prop, "args", "periodic-data-not-evaluated-on-its-own-side", side,
                                        fn=fname, max_abs=None if call[key].shape != wantf.shape else float((call[key].detach() - wantf).abs().max())))
        if "x" in call and not torch.equal(call["x"].detach(), x):
            out.append(viol(prop, "args", "coordinates-differ-from-sample", "x"))
    elif kind == "integro":
        x, t = cols["x"], cols["t"]
        tint = b["int_samples"][-1]
        n_x, n_i = len(x), len(tint)
        for v in ("x", "t"):
            if v in call and (call[v].shape != (n_x, 1, cols[v].shape[1]) or not torch.equal(call[v].detach()[:, 0, :], cols[v])):
                out.append(viol(prop, "args", "coordinates-differ-from-sample", v))
                return
        if "t_integral" in call and (call["t_integral"].shape != (1, n_i, 1) or not torch.equal(call["t_integral"].detach()[0], tint)):
            out.append(viol(prop, "args", "integral-points-differ-from-the-integral-sample", "t_integral"))
            return
        if "u" in call:
            wantu = closed_form(w, x, t, cs["out_dim"])
            if call["u"].shape != (n_x, 1, cs["out_dim"]) or not torch.allclose(call["u"].detach()[:, 0, :], wantu, rtol=1e-5, atol=1e-6):
                out.append(viol(prop, "args", "model-output-not-at-the-sampled-rows", kind))
                return
        if "u_integral" in call:
            xx = x.unsqueeze(1).expand(n_x, n_i, 2)
            tt = tint.unsqueeze(0).expand(n_x, n_i, 1)
            wanti = closed_form(w, xx, tt, cs["out_dim"])
            if call["u_integral"].shape != wanti.shape or not torch.allclose(call["u_integral"].detach(), wanti, rtol=1e-5, atol=1e-6):
                out.append(viol(prop, "args", "model-output-not-at-(sampled row, integral point)", kind))
                return
        for fname, fargs in (cs.get("data_fns") or {}).items():
            if fname in call:
                wantf = data_value(list(fargs), x, t)
                gotf = call[fname].detach()
                gotf = gotf[:, 0, :] if gotf.dim() == 3 else gotf
                if gotf.shape != wantf.shape or not torch.allclose(gotf, wantf, rtol=1e-5, atol=1e-6):
                    out.append(viol(prop, "args", "data-function-not-evaluated-at-the-sampled-rows", kind, fn=fname,
                                    eval=eval_no, static=cs["sampler"].get("static")))
                    return
    else:
        x = cols["x"]
        t = cols.get("t", torch.zeros(len(x), 1))
        for v in ("x", "t"):
            if v in call:
                if v not in cols or call[v].shape != cols[v].shape or not torch.equal(call[v].detach(), cols[v]):
                    out.append(viol(prop, "args", "coordinates-differ-from-sample", v))
                    return
        if "u" in call:
            wantu = closed_form(w, x, t, cs["out_dim"])
            if call["u"].shape != wantu.shape or not torch.allclose(call["u"].detach(), wantu, rtol=1e-5, atol=1e-6):
                out.append(viol(prop, "args", "model-output-not-at-the-sampled-rows", kind))
                return
        for fname, fargs in (cs.get("data_fns") or {}).items():
            if fname in call:
                wantf = data_value(list(fargs), x, t)
                gotf = call[fname].detach()
                if gotf.shape != wantf.shape or not torch.allclose(gotf, wantf, rtol=1e-5, atol=1e-6):
                    out.append(viol(prop, "args", "data-function-not-evaluated-at-the-sampled-rows", kind, fn=fname,
                                    eval=eval_no, static=cs["sampler"].get("static"),
                                    max_abs=None if gotf.shape != wantf.shape else float((gotf - wantf).abs().max())))
                    return
        if "__grad__" in call and cs.get("grad_of"):
            z = cs["grad_of"][1]
            if z == "x":
                wantg = torch.cat([w * torch.cos(w * x[:, :1]) * x[:, 1:2], torch.sin(w * x[:, :1])], dim=1)
            else:
                wantg = torch.full((len(x), 1), 0.5)
            stats["grads_judged"] = stats.get("grads_judged", 0) + 1
            if not torch.allclose(call["__grad__"].detach(), wantg, rtol=1e-4, atol=1e-5):
                out.append(viol(prop, "derivative", "derivative-wrt-named-coordinate-wrong", z))
    if "k" in call and b["param"] is not None:
        if not torch.equal(call["k"].detach(), b["param"].as_tensor.detach()):
            out.append(viol(prop, "args", "parameter-differs", ""))
    want = expected_loss(b, probe.returned)
    if not math.isclose(float(loss), want, rel_tol=1e-4, abs_tol=1e-6):
        out.append(viol(prop, "reduce", "loss-is-not-the-documented-reduction", kind, got=float(loss), want=want))


def check_data_eval(b, loss, out, stats, eval_no, prop="C04"):
    cs = b["spec"]
    xs, ts, ys = b["data"]
    n, bs = cs["n"], cs.get("batch", cs["n"])
    w = b["model"].w.detach()
    full = closed_form(w, xs, ts if "t" in cs["data_order"] else torch.zeros_like(ts), cs["out_dim"])
    dist = (full - ys).abs().double()
    batches = [dist[i:i + bs] for i in range(0, n, bs)]
    p = cs["norm"]
    if cs.get("full"):
        want = max(float(bb.max()) for bb in batches) if p == "inf" else sum(float((bb ** p).mean()) for bb in batches) / len(batches)
    else:
        bb = batches[eval_no % len(batches)]
        want = float(bb.max()) if p == "inf" else float((bb ** p).mean())
    if cs.get("root", 1.0) != 1.0:
        want = want ** (1 / cs["root"])
    stats["evals_judged"] = stats.get("evals_judged", 0) + 1
    if not math.isclose(float(loss), want, rel_tol=1e-4, abs_tol=1e-6):
        out.append(viol(prop, "reduce", "data-loss-is-not-the-stated-norm", "data", got=float(loss), want=want,
                        norm=p, full=bool(cs.get("full")), eval=eval_no))


# ------------------------------------------------------------------- C04
def run_c04(case):
    out, stats, log = [], {}, []
    sim = SimRNG(case["rng"], fault=case.get("fault"))
    cs = case["cond"]
    with sim:
        try:
            b = build_condition(cs)
            for e in range(case["evals"]):
                sim.begin_op()
                nb = len(b["probe"].calls)
                loss = b["cond"](device="cpu", iteration=e)
                log.append(round(float(loss), 6))
                if cs["kind"] == "data":
                    check_data_eval(b, loss, out, stats, e)
                else:
                    check_eval(b, loss, nb, out, stats, eval_no=e)
        except Exception as ex:
            out.append(viol("C04", "run", "raises:" + type(ex).__name__, innermost_site(ex.__traceback__),
                            msg=traceback.format_exc()[-400:]))
    return _rec(case, out, stats, log, sim, features_c04(case))


def features_c04(case):
    cs = case["cond"]
    st = (cs.get("sampler") or {}).get("static")
    return {"cell": "%s|%s|static=%s|df%d|%s" % (cs["kind"], "+".join(cs.get("order", [])), st, len(cs.get("data_fns") or {}),
                                                  "p" if cs.get("use_param") else ""),
            "kind": cs["kind"], "static": "finite" if st not in (None, "inf") else str(st),
            "has_data_fn": bool(cs.get("data_fns")), "faulty": bool(case.get("fault"))}


def _rec(case, out, stats, log, sim, feats):
    rec = {"violations": out, "stats": stats, "sim": sim.summary(), "steps": case.get("evals", len(case.get("history", []))),
           "rows": None, "features": feats, "digest_extra": log}
    rec["nontrivial"] = stats.get("evals_judged", 0) > 0
    rec["key"] = "%s|%s|%s" % (feats["cell"], case.get("evals", len(case.get("history", []))), "+".join(sorted(rec["sim"]["fired"])))
    rec["outcome"] = log[:8]
    return rec


# ------------------------------------------------------------------- C14
def default_argument_state():
    """Observable state of the objects the condition classes keep as DEFAULT ARGUMENTS (one object per class
    definition, shared by every condition that does not override it)."""
    import inspect
    import torchphysics as tp
    st = {}
    for cname in dir(tp.conditions):
        cls = getattr(tp.conditions, cname)
        if not inspect.isclass(cls):
            continue
        try:
            sig = inspect.signature(cls.__init__)
        except (TypeError, ValueError):
            continue
        for pname, prm in sig.parameters.items():
            d = prm.default
            if d is inspect.Parameter.empty or isinstance(d, (int, float, str, bool, type(None), tuple)):
                continue
            if isinstance(d, dict):
                val = ("dict", sorted(map(str, d.keys())))
            elif isinstance(d, torch.nn.Module):
                val = ("module", sorted((k, repr(v)) for k, v in vars(d).items()
                                        if isinstance(v, (int, float, str, bool, type(None), tuple))))
            elif hasattr(d, "as_tensor"):
                val = ("points", tuple(d.as_tensor.shape))
            else:
                continue
            st["%s.%s" % (cname, pname)] = val
    return st


def run_c14(case):
    """Shared world vs. solo worlds under identical per-operation draw streams."""
    out, stats, log = [], {}, []
    sim = SimRNG(case["rng"], fault=None)
    specs = case["conds"]
    sharing = case["sharing"]
    with sim:
        try:
            import torchphysics as tp
            # ---------------- shared world: user objects handed to several conditions
            shared = {}
            probe_pts = {"x": torch.tensor([[0.25, 0.5], [0.75, 0.125], [0.5, 0.875]]), "t": torch.tensor([[0.5], [1.0], [1.5]])}

            def behaviour(d):
                """What the user's function objects compute on fixed probe rows."""
                out_ = {}
                for k_, f_ in d.items():
                    try:
                        from torchphysics.utils import UserFunction
                        if isinstance(f_, UserFunction):
                            out_[k_] = f_(dict(probe_pts)).detach().clone() if callable(f_.fun) else ("constant", tuple(f_.fun.shape))
                        else:
                            import inspect
                            names = list(inspect.signature(f_).parameters)
                            out_[k_] = f_(**{n_: probe_pts[n_] for n_ in names}).detach().clone()
                    except Exception as ex_:
                        out_[k_] = ("raises", type(ex_).__name__)
                return out_
            if sharing.get("data_dict"):
                first = next(cs for cs in specs if cs.get("data_fns"))
                shared["data_dict"] = {name: data_fun(list(args)) for name, args in first["data_fns"].items()}
                if sharing.get("wrapped"):
                    from torchphysics.utils import UserFunction
                    shared["data_dict"] = {k_: UserFunction(v_) for k_, v_ in shared["data_dict"].items()}
                behaviour_before = behaviour(shared["data_dict"])
            if sharing.get("domains"):
                shared["domains"] = {n: make_domain(n) for n in ("square", "disc", "ring", "bsquare", "pdisc")}
            if sharing.get("sampler_x"):
                first_x = next(cs["sampler"]["x"] for cs in specs if (cs.get("sampler") or {}).get("share_x"))
                shared["sampler_x"] = make_x_sampler(first_x, shared.get("domains"))
            user_dict_before = dict(shared["data_dict"]) if "data_dict" in shared else None
            dom_state = {n_: sorted(d_.necessary_variables) for n_, d_ in (shared.get("domains") or {}).items()}
            dflt_state = default_argument_state()
            builds = {}
            solo = {}
            for step, op in enumerate(case["history"]):
                i = op["i"]
                if op["op"] == "construct":
                    sim.reseed(H(case["rng"], "op", step))
                    sim.begin_op()
                    builds[i] = build_condition(specs[i], dict(shared))
                    sim.reseed(H(case["rng"], "op", step))
                    solo_spec = dict(specs[i], wrap_user_fun=bool(sharing.get("wrapped")))
                    solo[i] = build_condition(solo_spec, {})       # the same recipe, alone, fresh inputs
                    log.append(["construct", i])
                elif op["op"] == "evaluate" and i in builds:
                    it = op.get("iteration")
                    sim.reseed(H(case["rng"], "op", step))
                    sim.begin_op()
                    nb_probe = len(builds[i]["probe"].calls)
                    try:
                        la = float(builds[i]["cond"](device="cpu", iteration=it))
                        if specs[i]["kind"] == "periodic" and not (specs[i].get("sampler") or {}).get("static"):
                            # (d) left and right data each on their own side (C04's oracle for this evaluation)
                            check_eval(builds[i], la, nb_probe, out, stats, prop="C14")
                    except Exception as ex:
                        la = ("raises", type(ex).__name__, innermost_site(ex.__traceback__), str(ex)[:120])
                    sim.reseed(H(case["rng"], "op", step))
                    try:
                        lb = float(solo[i]["cond"](device="cpu", iteration=it))
                    except Exception as ex:
                        lb = ("raises", type(ex).__name__, innermost_site(ex.__traceback__), str(ex)[:120])
                    stats["evals_judged"] = stats.get("evals_judged", 0) + 1
                    log.append(["evaluate", i, la if isinstance(la, float) else la[:2]])
                    if isinstance(la, float) != isinstance(lb, float):
                        bad = la if not isinstance(la, float) else lb
                        out.append(viol("C14", "isolation", "condition-fails-only-when-it-shares-objects"
                                        if isinstance(lb, float) else "condition-fails-only-alone", bad[2], ckind=specs[i]["kind"], msg=bad[3]))
                    elif isinstance(la, float) and not math.isclose(la, lb, rel_tol=1e-6, abs_tol=1e-9):
                        out.append(viol("C14", "isolation", "loss-differs-from-solo-world", specs[i]["kind"], shared=la, solo=lb,
                                        other=[specs[j]["kind"] for j in builds if j != i]))
                    # (c) repeatability with a never-resampling static sampler
                    smp = specs[i].get("sampler") or {}
                    if isinstance(la, float) and (smp.get("static") == "inf" or smp.get("static_factor")) \
                            and specs[i]["kind"] not in ("data",) and op.get("repeat"):
                        sim.reseed(H(case["rng"], "op", step, "again"))
                        la2 = float(builds[i]["cond"](device="cpu", iteration=it))
                        stats["repeats"] = stats.get("repeats", 0) + 1
                        if la2 != la:
                            out.append(viol("C14", "repeatable", "static-condition-loss-changes-without-optimisation", specs[i]["kind"],
                                            first=la, second=la2))
                # (b3) default arguments are shared by every condition of a class: nothing may be written into them
                now_d = default_argument_state()
                if now_d != dflt_state:
                    ch = sorted(k_ for k_ in now_d if now_d[k_] != dflt_state.get(k_))
                    out.append(viol("C14", "containers", "default-argument-object-modified", ch[0] if ch else "",
                                    after=op["op"], op_condition=specs[i]["kind"]))
                    dflt_state = now_d
                # (b'') the models are user objects too: an evaluation must leave their training mode as it found it
                for j_, bj in builds.items():
                    m_ = bj.get("model")
                    if m_ is not None and hasattr(m_, "training") and not m_.training and not bj.get("_mode_reported"):
                        out.append(viol("C14", "containers", "model-left-in-eval-mode", specs[j_]["kind"], after=op["op"],
                                        op_condition=specs[i]["kind"]))
                        bj["_mode_reported"] = True
                # (b') the user's domain objects still declare the same needs
                for n_, d_ in (shared.get("domains") or {}).items():
                    if sorted(d_.necessary_variables) != dom_state[n_]:
                        out.append(viol("C14", "containers", "user-domain-object-modified", n_,
                                        now=sorted(d_.necessary_variables), before=dom_state[n_]))
                        dom_state[n_] = sorted(d_.necessary_variables)
                # (b) user containers hold the same objects under the same keys
                if user_dict_before is not None:
                    d = shared["data_dict"]
                    if list(d.keys()) != list(user_dict_before.keys()) or any(d[k] is not user_dict_before[k] for k in d):
                        out.append(viol("C14", "containers", "user-dictionary-modified", "",
                                        after=[type(v).__name__ for v in d.values()]))
                        user_dict_before = dict(d)
                    else:
                        now = behaviour(d)
                        same_b = all((torch.equal(now[k_], behaviour_before[k_]) if isinstance(now[k_], torch.Tensor)
                                      and isinstance(behaviour_before[k_], torch.Tensor) else now[k_] == behaviour_before[k_]
                                      if not isinstance(now[k_], torch.Tensor) and not isinstance(behaviour_before[k_], torch.Tensor)
                                      else False) for k_ in now)
                        if not same_b:
                            out.append(viol("C14", "containers", "user-function-object-modified", "",
                                            now=[str(v_)[:40] for v_ in now.values()]))
                            behaviour_before = now
            stats["constructed"] = len(builds)
        except Exception as ex:
            out.append(viol("C14", "run", "raises:" + type(ex).__name__, innermost_site(ex.__traceback__),
                            msg=traceback.format_exc()[-400:]))
    feats = {"cell": "%s|%s" % ("+".join(c["kind"] for c in specs), "+".join(sorted(k for k, v in sharing.items() if v))),
             "faulty": False, "shares_dict": bool(sharing.get("data_dict")),
             "kinds": "+".join(sorted({c["kind"] for c in specs})),
             "any_static": any((c.get("sampler") or {}).get("static") for c in specs)}
    return _rec(case, out, stats, log, sim, feats)
