"""samplersim -- histories of operations on sampler *expressions* (C02) and on
static / adaptive samplers (C15), executed on the real torchphysics samplers
under SimRNG, judged by the small reference models R-count / R-static /
R-adaptive.  Every node of the sampler expression is wrapped by a recording
proxy, so the oracle sees what each sub-sampler was asked and what it returned.
"""
import math
import traceback
import warnings

import numpy as np
import torch

from .core.simrng import SimRNG, SimBudgetExceeded
from .ref import geometry as G
from . import tpbuild as B
from .geosim import viol, innermost_site, make_filter, filter_ok, giveup_plausible

warnings.filterwarnings("ignore")


# ---------------------------------------------------------------- building
class Rec:
    """What one sampler node was asked and what it answered (per call)."""

    def __init__(self):
        self.calls = []  # (k_in, params tensor or None, out tensor, out names)


def build(node, recs, path="r"):
    import torchphysics as tp
    S = tp.samplers
    s = node["s"]
    if s == "leaf":
        dom = B.build(node["dom"])
        kw = {}
        if node.get("n"):
            kw["n_points"] = int(node["n"])
        else:
            kw["density"] = float(node["d"])
        cls = node["cls"]
        flt = make_filter(node.get("filter"))
        if cls == "RandomUniform":
            obj = S.RandomUniformSampler(dom, filter_fn=flt, **kw)
        elif cls == "Grid":
            obj = S.GridSampler(dom, filter_fn=flt, **kw)
        elif cls == "ExpInterval":
            obj = S.ExponentialIntervalSampler(dom, n_points=int(node["n"]), exponent=float(node["exp"]))
        elif cls == "LHS":
            obj = S.LHSSampler(dom, n_points=int(node["n"]))
        elif cls == "Gaussian":
            obj = S.GaussianSampler(dom, n_points=int(node["n"]), mean=list(node["gauss"]["mean"]),
                                    std=float(node["gauss"]["std"]))
        else:
            raise ValueError(cls)
    elif s == "data":
        cols = {}
        j = 0
        arr = torch.tensor(node["rows"], dtype=torch.float32).reshape(len(node["rows"]), -1)
        for v, d in node["space"]:
            cols[v] = arr[:, j:j + d]
            j += d
        obj = S.DataSampler(cols)
    elif s == "empty":
        obj = S.EmptySampler()
    elif s == "static":
        inner = build(node["a"], recs, path + "s")
        obj = inner.make_static(node["r"] if node["r"] is not None else math.inf)
    else:
        a = build(node["a"], recs, path + "a")
        b = build(node["b"], recs, path + "b")
        obj = a * b if s == "prod" else (a + b if s == "sum" else a.append(b))
    rec = recs.setdefault(path, Rec())
    orig = obj.sample_points

    def sample_points(params=B.Points.empty(), device="cpu", _o=orig, _r=rec, **kw):
        out = _o(params, device=device, **kw) if kw else _o(params, device=device)
        try:
            pin = None if params.isempty else params.as_tensor.detach().clone()
            _r.calls.append((len(params), pin, list(params.space.keys()) if not params.isempty else [],
                             out.as_tensor.detach().clone() if not out.isempty else torch.zeros(0, 0),
                             list(out.space.keys()) if not out.isempty else []))
        except Exception:
            pass
        return out
    obj.sample_points = sample_points
    obj._sv_node = node
    return obj


# -------------------------------------------------------------- R-count
def _fixed_n_tree(node):
    """Every leaf has n_points and no filter (the announced length is then n for every history)."""
    s = node["s"]
    if s == "leaf":
        return bool(node.get("n")) and not node.get("filter")
    if s in ("data", "empty"):
        return True
    if s == "static":
        return _fixed_n_tree(node["a"])
    return _fixed_n_tree(node["a"]) and _fixed_n_tree(node["b"])


def rows_of(node, k, actual=None):
    """Expected number of rows for k incoming parameter rows (None = unknown: density)."""
    s = node["s"]
    m = max(k, 1)
    if s == "leaf":
        return int(node["n"]) * m if node.get("n") else None
    if s == "data":
        return len(node["rows"]) * m
    if s == "empty":
        return 0
    if s == "static":
        return rows_of(node["a"], k)
    if s == "prod":
        rb = rows_of(node["b"], k)
        return None if rb is None else rows_of(node["a"], rb)
    if s == "sum":
        ra, rb = rows_of(node["a"], k), rows_of(node["b"], k)
        return None if ra is None or rb is None else ra + rb
    if s == "append":
        return rows_of(node["a"], k)
    raise ValueError(s)


def out_space(node, pnames):
    """Expected column-group order of the output."""
    s = node["s"]
    if s == "leaf":
        names = [v for v, _ in G.space(node["dom"])]
        return names + [p for p in pnames if p not in names]
    if s == "data":
        names = [v for v, _ in node["space"]]
        return names + [p for p in pnames if p not in names]
    if s == "empty":
        return []
    if s == "static":
        return out_space(node["a"], pnames)
    if s == "prod":
        return out_space(node["a"], out_space(node["b"], pnames))
    if s == "sum":
        return out_space(node["a"], pnames)
    if s == "append":
        a = out_space(node["a"], pnames)
        return a + [x for x in out_space(node["b"], pnames) if x not in a]
    raise ValueError(s)


def _cols(t, names, dims):
    out, j = {}, 0
    for v in names:
        out[v] = t[:, j:j + dims[v]]
        j += dims[v]
    return out


def all_dims(node, dims=None):
    dims = {} if dims is None else dims
    if node["s"] == "leaf":
        for v, d in G.space(node["dom"]):
            dims[v] = d
    elif node["s"] == "data":
        for v, d in node["space"]:
            dims[v] = d
    for c in ("a", "b"):
        if c in node and isinstance(node[c], dict):
            all_dims(node[c], dims)
    return dims


def judge_leaf(node, call, dims, out, stats):
    """n rows per parameter row, carried unchanged, in the right space, inside the domain."""
    k, pin, pnames, t, names = call
    want_names = out_space(node, pnames)
    rows = len(t)
    if node["s"] == "leaf" and node.get("n"):
        n = int(node["n"])
        if rows != n * max(k, 1):
            out.append(viol("C02", "row-count", "rows!=n*k", node["cls"], rows=rows, n=n, k=k))
            return
    if node["s"] == "data":
        n = len(node["rows"])
        if rows != n * max(k, 1):
            out.append(viol("C02", "row-count", "rows!=n*k", "DataSampler", rows=rows, n=n, k=k))
            return
    if rows == 0:
        return
    if names != want_names:
        out.append(viol("C02", "space", "wrong-space-order", node.get("cls", node["s"]), got=names, want=want_names))
        return
    cols = _cols(t, names, dims)
    if k and (node["s"] == "data" or node.get("n")):
        n = rows // k
        pc = _cols(pin, pnames, dims)
        own = [v for v, _ in (G.space(node["dom"]) if node["s"] == "leaf" else node["space"])]
        for v in pnames:
            if v in own:
                continue
            if not torch.equal(cols[v], torch.repeat_interleave(pc[v], n, dim=0)):
                out.append(viol("C02", "pairing", "parameter-row-not-carried", node.get("cls", node["s"]), var=v))
                return
        stats["pairings_checked"] = stats.get("pairings_checked", 0) + 1
    if node["s"] == "leaf":
        P = {v: c.double().numpy() for v, c in cols.items()}
        if all(v in P for v in G.free_vars(node["dom"])):
            d = G.dev(node["dom"], P)
            stats["rows_judged"] = stats.get("rows_judged", 0) + rows
            if (d > G.TOL_ON).any():
                out.append(viol("C02", "dependent-factor", "point-not-in-domain-at-its-partner", node["cls"],
                                rows_bad=int((d > G.TOL_ON).sum()), worst=float(d.max())))
            if node.get("filter") and not filter_ok(node["filter"], P).all():
                out.append(viol("C02", "filter", "filtered-point-returned", node["cls"]))
    if node["s"] == "data" and rows:
        base = torch.tensor(node["rows"], dtype=torch.float32).reshape(len(node["rows"]), -1)
        own = [v for v, _ in node["space"]]
        got = torch.cat([cols[v] for v in own], dim=1)
        if not torch.equal(got, base.repeat(max(k, 1), 1)):
            out.append(viol("C02", "data", "data-rows-not-repeated-in-order", "DataSampler"))


def judge_tree(node, recs, path, idx, dims, out, stats):
    """Judge call number idx[path] of every node that took part in one root call."""
    rec = recs.get(path)
    i = idx.get(path, 0)
    if rec is None or i >= len(rec.calls):
        return None
    call = rec.calls[i]
    idx[path] = i + 1
    s = node["s"]
    k, pin, pnames, t, names = call
    if s in ("leaf", "data"):
        judge_leaf(node, call, dims, out, stats)
    elif s == "empty":
        if len(t):
            out.append(viol("C02", "empty", "empty-sampler-returned-rows", ""))
    elif s == "static":
        pass  # judged by the R-static model on the history
    elif s == "prod":
        cb = judge_tree(node["b"], recs, path + "b", idx, dims, out, stats)
        ca = judge_tree(node["a"], recs, path + "a", idx, dims, out, stats)
        if ca is not None and cb is not None:
            # the first factor was asked with exactly the second factor's sample
            if ca[1] is None and len(cb[3]):
                out.append(viol("C02", "product", "first-factor-not-given-partner-points", ""))
            elif ca[1] is not None and not torch.equal(ca[1], cb[3]):
                out.append(viol("C02", "product", "first-factor-not-given-partner-points", ""))
            if not torch.equal(ca[3], t):
                out.append(viol("C02", "product", "output-is-not-first-factor-sample", ""))
            # complete grid per partner point for grid first factors
            a = node["a"]
            while a["s"] == "static":
                a = a["a"]
            if a["s"] == "leaf" and a["cls"] == "Grid" and a.get("n") and not a.get("filter") \
                    and not G.free_vars(a["dom"]) and len(cb[3]) > 1 and len(ca[3]) == int(a["n"]) * len(cb[3]):
                da = sum(d for _, d in G.space(a["dom"]))
                blocks = ca[3][:, :da].reshape(len(cb[3]), int(a["n"]), da)
                if not all(torch.equal(blocks[0], blocks[j]) for j in range(1, len(blocks))):
                    out.append(viol("C02", "product", "grid-block-differs-between-partner-points", ""))
                stats["grid_blocks_checked"] = stats.get("grid_blocks_checked", 0) + 1
    elif s == "sum":
        ca = judge_tree(node["a"], recs, path + "a", idx, dims, out, stats)
        cb = judge_tree(node["b"], recs, path + "b", idx, dims, out, stats)
        if ca is not None and cb is not None:
            if len(t) != len(ca[3]) + len(cb[3]):
                out.append(viol("C02", "sum", "rows!=rows_a+rows_b", "", rows=len(t), a=len(ca[3]), b=len(cb[3])))
            elif len(ca[3]) and len(cb[3]) and ca[4] == cb[4] and not torch.equal(t, torch.cat([ca[3], cb[3]], dim=0)):
                out.append(viol("C02", "sum", "not-the-concatenation", ""))
    elif s == "append":
        ca = judge_tree(node["a"], recs, path + "a", idx, dims, out, stats)
        cb = judge_tree(node["b"], recs, path + "b", idx, dims, out, stats)
        if ca is not None and cb is not None and len(ca[3]) == len(cb[3]) and len(t):
            if len(t) != len(ca[3]) or not torch.equal(t, torch.cat([ca[3], cb[3]], dim=1)):
                out.append(viol("C02", "append", "not-the-column-stack", ""))
    return call


def _empty_density_partner(node, recs, path):
    if node["s"] == "leaf" and not node.get("n"):
        rec = recs.get(path)
        if rec and rec.calls and len(rec.calls[-1][3]) == 0:
            return True
    for c, suffix in (("a", "a"), ("b", "b")):
        if c in node and isinstance(node[c], dict):
            if _empty_density_partner(node[c], recs, path + ("s" if node["s"] == "static" else suffix)):
                return True
    return False


def _skip_calls(node, recs, path, idx):
    rec = recs.get(path)
    if rec is not None:
        idx[path] = len(rec.calls)
    for c, suffix in (("a", "a"), ("b", "b")):
        if c in node and isinstance(node[c], dict):
            _skip_calls(node[c], recs, path + ("s" if node["s"] == "static" else suffix), idx)


def static_children(node, path="r"):
    if node["s"] == "static":
        yield path, node
        yield from static_children(node["a"], path + "s")
    for c in ("a", "b"):
        if c in node and isinstance(node[c], dict) and node["s"] != "static":
            yield from static_children(node[c], path + c)


# ----------------------------------------------------------------- run C02
def run_c02(case):
    out, stats = [], {}
    sim = SimRNG(case["rng"], fault=case.get("fault"), budget_calls=30000)
    recs = {}
    steps = 0
    hist_log = []
    with sim:
        try:
            root = build(case["samp"], recs)
        except Exception as ex:
            out.append(viol("C02", "construct", "raises:" + type(ex).__name__, innermost_site(ex.__traceback__),
                            msg=str(ex)[:200]))
            root = None
        dims = all_dims(case["samp"])
        for v, d in (case.get("pspace") or []):
            dims[v] = d
        idx = {}
        sampled_yet = False
        last_free_rows = None
        pending_len = None
        if root is not None:
            for op in case["history"]:
                steps += 1
                sim.begin_op()
                try:
                    if op["op"] == "len":
                        try:
                            ln = len(root)
                        except ValueError:
                            ln = None  # documented: not known before the first density call
                        hist_log.append(["len", ln])
                        if ln is not None:
                            if last_free_rows is not None and ln != last_free_rows:
                                out.append(viol("C02", "len", "len!=rows", "", len=ln, rows=last_free_rows))
                            elif last_free_rows is None and not sampled_yet:
                                # before the first call: must announce the rows of a parameter-free call
                                pending_len = ln
                    else:
                        params = B.params_points(case.get("pspace"), op.get("prows"))
                        sampled_yet = True
                        pts = root.sample_points(params)
                        rows = 0 if pts.isempty else len(pts.as_tensor)
                        hist_log.append(["sample", len(params), rows])
                        k = len(params)
                        if _empty_density_partner(case["samp"], recs, "r"):
                            # excluded cell: a density(+filter) leaf produced no point at all
                            stats["excluded_empty_partner"] = 1
                            _skip_calls(case["samp"], recs, "r", idx)
                            last_free_rows = None
                            pending_len = None
                            continue
                        want = rows_of(case["samp"], k)
                        if want is not None and rows != want:
                            out.append(viol("C02", "row-count", "rows!=expected", "root", rows=rows, want=want, k=k))
                        if rows:
                            names = list(pts.space.keys())
                            pn = [v for v, _ in (case.get("pspace") or [])] if k else []
                            wn = out_space(case["samp"], pn)
                            if names != wn:
                                out.append(viol("C02", "space", "wrong-space-order", "root", got=names, want=wn))
                        judge_tree(case["samp"], recs, "r", idx, dims, out, stats)
                        if k == 0:
                            if pending_len is not None and pending_len != rows:
                                out.append(viol("C02", "len", "len-before-call!=rows", "", len=pending_len, rows=rows))
                            pending_len = None
                            last_free_rows = rows
                        else:
                            last_free_rows = None
                            pending_len = None
                        stats["samples"] = stats.get("samples", 0) + 1
                except SimBudgetExceeded as ex:
                    if sim.fired:
                        stats["growth_under_faults"] = 1   # see geosim: legal-but-probability-zero draw runs
                    else:
                        out.append(viol("C02", "termination", "draw-budget-exceeded", innermost_site(ex.__traceback__)))
                    break
                except Exception as ex:
                    site = innermost_site(ex.__traceback__)
                    if site.endswith("_check_iteration_number") and (case.get("fault") or giveup_plausible(case.get("samp"))):
                        stats["documented_giveup"] = 1
                    elif _empty_density_partner(case["samp"], recs, "r"):
                        # excluded cell: a density(+filter) factor returned 0 points, the
                        # product with an empty partner sample raises (loud, no wrong result)
                        stats["excluded_empty_partner"] = 1
                    else:
                        out.append(viol("C02", "call", "raises:" + type(ex).__name__, site, msg=str(ex)[:200]))
                    break
    rec = {"violations": out, "stats": stats, "sim": sim.summary(), "steps": steps,
           "rows": None, "features": features_c02(case), "digest_extra": hist_log}
    f = rec["features"]
    rec["nontrivial"] = stats.get("samples", 0) > 0
    rec["key"] = "%s|%s|%s" % (f["cell"], "+".join(sorted(rec["sim"]["fired"])), len(case["history"]))
    rec["outcome"] = hist_log[:6]
    return rec


def shape_of(node):
    s = node["s"]
    if s == "leaf":
        return "%s:%s%s%s" % (node["cls"], "n" if node.get("n") else "d", "f" if node.get("filter") else "",
                              "p" if G.free_vars(node["dom"]) else "")
    if s in ("data", "empty"):
        return s
    if s == "static":
        return "static(%s)" % shape_of(node["a"])
    return "%s(%s,%s)" % (s, shape_of(node["a"]), shape_of(node["b"]))


def features_c02(case):
    sh = shape_of(case["samp"])
    ks = sorted({len(op.get("prows") or []) for op in case["history"] if op["op"] == "sample"})
    return {"cell": sh + "|k" + ",".join(map(str, ks)), "shape": sh, "faulty": bool(case.get("fault")),
            "kmax": "2+" if ks and ks[-1] >= 2 else str(ks[-1] if ks else 0),
            "dep": "p" in sh}


# ----------------------------------------------------------------- run C15
def run_c15(case):
    """Static / adaptive state machines over a call history."""
    out, stats = [], {}
    sim = SimRNG(case["rng"], fault=case.get("fault"), budget_calls=30000)
    steps = 0
    log = []
    with sim:
        try:
            if case["kind"] == "static":
                _run_static(case, sim, out, stats, log)
            else:
                _run_adaptive(case, sim, out, stats, log)
            steps = len(case["history"])
        except SimBudgetExceeded as ex:
            if sim.fired:
                stats["growth_under_faults"] = 1
            else:
                out.append(viol("C15", "termination", "draw-budget-exceeded", innermost_site(ex.__traceback__)))
        except Exception as ex:
            if case["kind"] == "static" and "got size 0" in str(ex):
                stats["excluded_empty_partner"] = 1   # as in C02: empty density partner sample
            elif innermost_site(ex.__traceback__).endswith("_check_iteration_number") and (
                    case.get("fault") or giveup_plausible(case.get("base") or {"filter": case.get("filter"), "n": case.get("n")})):
                stats["documented_giveup"] = 1
            else:
                out.append(viol("C15", "call", "raises:" + type(ex).__name__, innermost_site(ex.__traceback__),
                                msg=str(ex)[:200]))
    f = {"cell": "%s|%s|%s" % (case["kind"], case.get("base_cls", case.get("cls")), case.get("r", case.get("ratio"))),
         "faulty": bool(case.get("fault")), "kind": case["kind"]}
    rec = {"violations": out, "stats": stats, "sim": sim.summary(), "steps": steps, "rows": None,
           "features": f, "digest_extra": log}
    rec["nontrivial"] = stats.get("ops_judged", 0) > 0
    rec["key"] = "%s|%s|%d" % (f["cell"], "+".join(sorted(rec["sim"]["fired"])), len(case["history"]))
    rec["outcome"] = log[:8]
    return rec


def _run_static(case, sim, out, stats, log):
    import torchphysics as tp
    node = case["base"]
    recs = {}
    base = build(node, recs, "b")
    inner_calls = [0]
    orig = base.sample_points

    def counted(params=B.Points.empty(), device="cpu", **kw):
        inner_calls[0] += 1
        return orig(params, device=device)
    base.sample_points = counted
    r0 = case["r"]
    st = base.make_static(math.inf if r0 is None else r0)
    is_static = True
    r = math.inf if r0 is None else r0
    ages = None            # set of possible ages of the stored set (None: nothing stored)
    cur = None
    for op in case["history"]:
        sim.begin_op()
        name = op["op"]
        before_calls, before_seq = inner_calls[0], sim.seq
        if name == "restatic":
            r_old = r
            if op["r"] != "same":
                r = math.inf if op["r"] is None else op["r"]
            st2 = st.make_static(r)
            if st2 is not st:
                out.append(viol("C15", "static", "make_static-on-static-returns-new-object", ""))
                st = st2
            if ages is not None and r != r_old:
                # the interval changed in the middle of a cycle: both readings of the documentation
                # are accepted. With the SAME interval there is nothing to read: the interval is K
                # throughout, so every set is used exactly K times (seeded change C15i).
                ages = set(ages) | {0}
            log.append(["restatic", op["r"]])
            continue
        if name == "len":
            try:
                ln = len(st)
            except ValueError:
                ln = None
            log.append(["len", ln])
            if ln is not None and cur is not None and ln != len(cur):
                out.append(viol("C15", "static", "len!=rows-of-stored-set", "", len=ln, rows=len(cur)))
            continue
        if name == "next":
            pts = next(st)
        elif name == "sample_dev":
            pts = st.sample_points(device="cpu")
        else:
            pts = st.sample_points()
        t = pts.as_tensor.detach().clone() if not pts.isempty else torch.zeros(0, 0)
        if len(t) == 0:
            # excluded cell: a density sampler that produced no point at all (an empty
            # Points object is falsy, the static sampler then draws again on every call)
            stats["excluded_empty_set"] = 1
            return
        fresh = inner_calls[0] > before_calls
        drew = sim.seq > before_seq
        stats["ops_judged"] = stats.get("ops_judged", 0) + 1
        log.append([name, "fresh" if fresh else "same", len(t)])
        if name == "next":
            if cur is not None and fresh:
                out.append(viol("C15", "static", "next-resampled-although-points-exist", ""))
            if cur is None:
                if not fresh:
                    out.append(viol("C15", "static", "no-draw-on-first-use", ""))
                cur, ages = t, {0}
            elif not torch.equal(t, cur):
                out.append(viol("C15", "static", "stored-set-changed", "next"))
            continue
        if ages is None:
            if not fresh:
                out.append(viol("C15", "static", "no-draw-on-first-use", ""))
            cur, ages = t, {0}
            continue
        nxt = set()
        for a in ages:
            if a + 1 < r:
                if not fresh:
                    nxt.add(a + 1)
            else:
                if fresh:
                    nxt.add(0)
        if not nxt:
            out.append(viol("C15", "static", "resampled-too-early" if fresh else "resampled-too-late", "",
                            r=(None if r == math.inf else r), ages=sorted(ages)))
            ages = {0} if fresh else {min(ages) + 1}
        else:
            ages = nxt
        if fresh:
            if case.get("base_random") and not drew:
                out.append(viol("C15", "static", "fresh-set-without-draws", ""))
            cur = t
        else:
            if not torch.equal(t, cur):
                out.append(viol("C15", "static", "stored-set-changed", name))
    # non-static twin: draws fresh points on every call
    if case.get("base_random"):
        recs2 = {}
        plain = build(node, recs2, "p")
        prev = None
        for _ in range(3):
            sim.begin_op()
            b = sim.seq
            t = plain.sample_points().as_tensor.detach().clone()
            if len(t) == 0:
                break
            if sim.seq == b:
                out.append(viol("C15", "non-static", "no-draws-on-call", ""))
            if prev is not None and torch.equal(prev, t) and not case.get("fault") \
                    and node["s"] == "leaf" and node.get("n"):
                out.append(viol("C15", "non-static", "same-points-twice", ""))
            prev = t
            stats["ops_judged"] = stats.get("ops_judged", 0) + 1


def _run_adaptive(case, sim, out, stats, log):
    import torchphysics as tp
    S = tp.samplers
    dom = B.build(case["dom"])
    n = int(case["n"])
    flt = make_filter(case.get("filter"))
    if case["cls"] == "AdaptiveThreshold":
        smp = S.AdaptiveThresholdRejectionSampler(dom, resample_ratio=float(case["ratio"]), n_points=n, filter_fn=flt)
    else:
        smp = S.AdaptiveRandomRejectionSampler(dom, n_points=n, filter_fn=flt)
    fresh_rec = []
    rs = smp.random_sampler
    orig = rs.sample_points

    def rec_sample(params=B.Points.empty(), device="cpu"):
        o = orig(params, device=device)
        fresh_rec.append(o.as_tensor.detach().clone())
        return o
    rs.sample_points = rec_sample
    # the uniform numbers of the random variant are observed at the seam
    rand_like_vals = []
    cur_rand_like = torch.rand_like

    def spy_rand_like(inp, *a, **k):
        v = cur_rand_like(inp, *a, **k)
        rand_like_vals.append(v.detach().clone())
        return v
    torch.rand_like = spy_rand_like
    try:
        last = None
        kept_mid = tot_mid = 0
        for op in case["history"]:
            sim.begin_op()
            loss = None if op.get("loss") is None else torch.tensor(op["loss"], dtype=torch.float32)
            nf, nr = len(fresh_rec), len(rand_like_vals)
            pts = smp.sample_points(unreduced_loss=loss)
            t = pts.as_tensor.detach().clone()
            stats["ops_judged"] = stats.get("ops_judged", 0) + 1
            if len(fresh_rec) != nf + 1:
                out.append(viol("C15", "adaptive", "no-fresh-draw-observed", ""))
                break
            new = fresh_rec[-1]
            if len(t) != n:
                out.append(viol("C15", "adaptive", "number-of-points-changed", "", rows=len(t), n=n))
                break
            P = {v: t[:, :].double().numpy() for v, _ in G.space(case["dom"])}
            d = G.dev(case["dom"], P)
            if (d > G.TOL_ON).any():
                out.append(viol("C15", "adaptive", "point-outside-domain", "", worst=float(d.max())))
            if case.get("filter") and not filter_ok(case["filter"], P).all():
                # the admissible region of a filtered sampler is the domain restricted by its filter
                out.append(viol("C15", "adaptive", "point-violates-the-sampler's-filter", "",
                                rows_bad=int((~filter_ok(case["filter"], P)).sum())))
            if last is None or loss is None:
                if not torch.equal(t, new):
                    out.append(viol("C15", "adaptive", "first-set-is-not-the-fresh-draw", ""))
                log.append(["init", len(t)])
            else:
                mx, mn = float(loss.max()), float(loss.min())
                same_as_last = (t == last).all(dim=1)
                same_as_new = (t == new).all(dim=1)
                if not (same_as_last | same_as_new).all():
                    out.append(viol("C15", "adaptive", "row-is-neither-kept-nor-the-fresh-point", "",
                                    rows_bad=int((~(same_as_last | same_as_new)).sum())))
                if case["cls"] == "AdaptiveThreshold":
                    thr = torch.tensor(mn, dtype=torch.float32) + torch.tensor(mx - mn, dtype=torch.float32) * float(case["ratio"])
                    keep = loss >= thr
                    want = torch.where(keep[:, None], last, new)
                    if not torch.equal(t, want):
                        bad_keep = int((keep & ~same_as_last).sum())
                        bad_repl = int((~keep & ~same_as_new).sum())
                        out.append(viol("C15", "adaptive-threshold", "kept-set-differs-from-threshold-rule", "",
                                        kept_wrongly_replaced=bad_keep, low_not_replaced=bad_repl,
                                        ratio=case["ratio"]))
                    log.append(["thr", int(keep.sum())])
                else:
                    if len(rand_like_vals) != nr + 1:
                        out.append(viol("C15", "adaptive-random", "no-uniform-draw-observed", ""))
                    else:
                        u = rand_like_vals[-1].reshape(-1)
                        repl = loss < mn + (mx - mn) * u
                        want = torch.where(repl[:, None], new, last)
                        if not torch.equal(t, want):
                            out.append(viol("C15", "adaptive-random", "replacement-differs-from-documented-rule", ""))
                        top = loss == mx
                        if (top & (u < 1) & ~same_as_last).any():
                            out.append(viol("C15", "adaptive-random", "maximal-loss-point-replaced", ""))
                        if mx > mn and not case.get("fault"):
                            mid = (loss > mn) & (loss < mx)
                            kept_mid += int((mid & ~repl).sum())
                            tot_mid += int(mid.sum())
                            stats["mid_expect_keep"] = stats.get("mid_expect_keep", 0.0) + float(
                                ((loss[mid] - mn) / (mx - mn)).sum())
                            stats["mid_var"] = stats.get("mid_var", 0.0) + float(
                                (((loss[mid] - mn) / (mx - mn)) * (1 - (loss[mid] - mn) / (mx - mn))).sum())
                    log.append(["rnd", int(same_as_last.sum())])
            last = t
        if case["cls"] == "AdaptiveRandom" and tot_mid >= 200 and not case.get("fault"):
            # keep frequency of mid-loss rows follows (l-min)/(max-min): z-test, alpha 1e-9
            e, v = stats.get("mid_expect_keep", 0.0), stats.get("mid_var", 0.0)
            z = (kept_mid - e) / math.sqrt(max(v, 1e-9))
            stats["freq_tests"] = 1
            stats["max_abs_z"] = abs(z)
            if abs(z) > 6.11:
                out.append(viol("C15", "adaptive-random", "keep-frequency-off", "", z=z, kept=kept_mid, expected=e))
    finally:
        torch.rand_like = cur_rand_like
