"""loadersim -- one pass over a data loader is a history of batches under a
simulator-chosen shuffle permutation (C16).  Every datum carries a unique tag,
so every row of every batch is attributable."""
import math
import traceback

import torch

from .core.simrng import SimRNG
from .geosim import viol, innermost_site


def run_c16(case):
    out, stats = [], {}
    sim = SimRNG(case["rng"], fault=case.get("fault"))
    with sim:
        try:
            if case["kind"] == "points":
                _points(case, out, stats)
            else:
                _deeponet(case, out, stats)
        except Exception as ex:
            out.append(viol("C16", "run", "raises:" + type(ex).__name__, innermost_site(ex.__traceback__),
                            msg=traceback.format_exc()[-300:]))
    f = features(case)
    rec = {"violations": out, "stats": stats, "sim": sim.summary(), "steps": stats.get("batches", 0), "rows": None,
           "features": f, "digest_extra": [stats.get("batches", 0), stats.get("covered", 0)]}
    rec["nontrivial"] = stats.get("batches", 0) > 0
    sizes = [case.get(k) for k in ("N", "batch", "n_objects", "n_branch", "n_trunk", "branch_batch", "trunk_batch",
                                   "shuffle", "drop_last", "shuffle_branch", "shuffle_trunk", "norm", "root")]
    rec["key"] = "%s|%s|%s" % (f["cell"], sizes, "+".join(sorted(rec["sim"]["fired"])))
    rec["outcome"] = dict(stats)
    return rec


def features(c):
    if c["kind"] == "points":
        N, bs = c["N"], c["batch"]
        cell = "points|%s|%s|%s" % ("b>N" if bs > N else ("b|N" if N % bs == 0 else "b!|N"), c["shuffle"], c["drop_last"])
        return {"cell": cell, "layout": "points", "faulty": bool(c.get("fault"))}
    F, T, bb, tb = c["n_branch"], c["n_trunk"], c["branch_batch"], c["trunk_batch"]
    ebb, etb = (F if bb < 0 else bb), (T if tb < 0 else tb)
    nbb, ntb = math.ceil(F / ebb), math.ceil(T / etb)
    cell = "deeponet|%s|gcd%s|%s|%s" % (c["layout"], "1" if math.gcd(nbb, ntb) == 1 else ">1",
                                          "b>N" if (ebb > F or etb > T) else "b<=N", "eq" if nbb == ntb else "ne")
    return {"cell": cell, "layout": c["layout"], "faulty": bool(c.get("fault")),
            "coprime": math.gcd(nbb, ntb) == 1, "batch_gt_data": ebb > F or etb > T,
            "divides": F % ebb == 0 and T % etb == 0, "equal_counts": nbb == ntb,
            "cov_class": (("safe" if (math.gcd(nbb, ntb) == 1 and ebb <= F and etb <= T and F % ebb == 0 and T % etb == 0)
                           else "unsafe") if c["layout"] == "shared" else ("safe" if (ebb <= F and etb <= T) else "wrap"))}


def _points(case, out, stats):
    import torchphysics as tp
    N, bs = case["N"], case["batch"]
    X, Y, Z = tp.spaces.R2("x"), tp.spaces.R1("y"), tp.spaces.R1("z")
    tags = torch.arange(N, dtype=torch.float32)
    data = [tp.spaces.Points(torch.stack([tags, tags + 0.25], dim=1), X),
            tp.spaces.Points((tags + 0.5).reshape(-1, 1), Y)]
    if case["n_objects"] == 3:
        data.append(tp.spaces.Points((tags + 0.75).reshape(-1, 1), Z))
    data = data[:max(1, case["n_objects"])]
    dl = tp.utils.PointsDataLoader(tuple(data) if len(data) > 1 else data[0], batch_size=bs,
                                   shuffle=case["shuffle"], drop_last=case["drop_last"])
    seen = set()
    nb = 0
    sizes = []
    for batch in dl:
        nb += 1
        t0 = batch[0].as_tensor[:, 0]
        sizes.append(len(t0))
        if len(t0) > bs:
            out.append(viol("C16", "batch-size", "batch-larger-than-requested", "", got=len(t0), bs=bs))
        if not torch.equal(batch[0].as_tensor[:, 1], t0 + 0.25):
            out.append(viol("C16", "pairing", "columns-of-one-object-torn", ""))
        offs = (0.0, 0.5, 0.75)
        for j in range(1, len(batch)):
            if not torch.equal(batch[j].as_tensor[:, 0], t0 + offs[j]):
                out.append(viol("C16", "pairing", "input-target-pairing-broken", "", obj=j))
                break
        seen |= {int(v) for v in t0.tolist()}
    stats["batches"] = nb
    full, rem = divmod(N, bs)
    allowed_missing = rem if case["drop_last"] else 0
    missing = N - len(seen)
    stats["covered"] = len(seen)
    if missing > allowed_missing:
        out.append(viol("C16", "coverage", "datum-never-presented", "", missing=missing, allowed=allowed_missing))
    if case["drop_last"] and rem and missing != rem and N >= bs:
        pass
    # full data-set aggregation by a data condition
    if len(data) >= 2 and nb > 0:
        class Zero(tp.models.Model):
            def __init__(self):
                super().__init__(X, Y)
                self.p = torch.nn.Parameter(torch.zeros(1))

            def forward(self, points):
                points = self._fix_points_order(points)
                return tp.spaces.Points(0.0 * points.as_tensor[:, :1] + self.p, Y)
        for norm in (case["norm"],):
            dl2 = tp.utils.PointsDataLoader((data[0], data[1]), batch_size=bs, shuffle=False,
                                            drop_last=case["drop_last"])
            cond = tp.conditions.DataCondition(Zero(), dl2, norm=norm, root=case["root"], use_full_dataset=True)
            got = float(cond())
            # independent aggregate from the data and the batch composition
            vals = (tags + 0.5).double()
            batches = [vals[i:i + bs] for i in range(0, N, bs)]
            if case["drop_last"]:
                batches = [b for b in batches if len(b) == bs]
            if not batches:
                continue
            if norm == "inf":
                want = max(float(b.max()) for b in batches)
            else:
                want = sum(float((b ** norm).mean()) for b in batches) / len(batches)
            if case["root"] != 1.0:
                want = want ** (1 / case["root"])
            stats["aggregates"] = stats.get("aggregates", 0) + 1
            if not math.isclose(got, want, rel_tol=1e-4, abs_tol=1e-5):
                out.append(viol("C16", "aggregate", "full-dataset-loss-differs", "", got=got, want=want, norm=norm))


def _deeponet(case, out, stats):
    import torchphysics as tp
    F, T = case["n_branch"], case["n_trunk"]
    bb, tb = case["branch_batch"], case["trunk_batch"]
    D = 3  # discretisation points of the branch input
    fid = torch.arange(F, dtype=torch.float32)
    tid = torch.arange(T, dtype=torch.float32)
    branch = fid.reshape(F, 1, 1).repeat(1, D, 1) + 0.001 * torch.arange(D).reshape(1, D, 1)
    outd = (1000 * fid.reshape(F, 1, 1) + tid.reshape(1, T, 1)).clone()
    if case["layout"] == "shared":
        trunk = tid.reshape(T, 1).clone()
    else:
        trunk = (1000 * fid.reshape(F, 1, 1) + tid.reshape(1, T, 1)).clone()
    Fsp, Tsp, Usp = tp.spaces.R1("f"), tp.spaces.R1("t"), tp.spaces.R1("u")
    dl = tp.utils.DeepONetDataLoader(branch, trunk, outd, Fsp, Tsp, Usp, bb, tb,
                                     shuffle_branch=case["shuffle_branch"], shuffle_trunk=case["shuffle_trunk"])
    seen = set()
    nb = 0
    ebb = F if bb < 0 else bb
    etb = T if tb < 0 else tb
    for b_in, t_in, o in dl:
        nb += 1
        if nb > 4000:
            out.append(viol("C16", "epoch", "epoch-longer-than-4000-batches", ""))
            break
        B, Tt, O = b_in.as_tensor, t_in.as_tensor, o.as_tensor
        fi = B[:, 0, 0]
        if not torch.equal(B[:, :, 0], fi.reshape(-1, 1) + 0.001 * torch.arange(D).reshape(1, D)):
            out.append(viol("C16", "pairing", "branch-function-rows-torn", ""))
        if len(fi) > ebb:
            out.append(viol("C16", "batch-size", "branch-batch-larger-than-requested", "", got=len(fi), bs=ebb))
        if case["layout"] == "shared":
            tj = Tt[:, 0]
            if len(tj) > etb:
                out.append(viol("C16", "batch-size", "trunk-batch-larger-than-requested", "", got=len(tj), bs=etb))
            want = 1000 * fi.reshape(-1, 1) + tj.reshape(1, -1)
        else:
            if Tt.shape[0] != len(fi):
                out.append(viol("C16", "pairing", "trunk-batch-does-not-match-branch-batch", ""))
                continue
            if Tt.shape[1] > etb:
                out.append(viol("C16", "batch-size", "trunk-batch-larger-than-requested", "", got=Tt.shape[1], bs=etb))
            want = Tt[:, :, 0]
            if not torch.equal(torch.div(want, 1000, rounding_mode="floor"), fi.reshape(-1, 1).expand_as(want)):
                out.append(viol("C16", "pairing", "trunk-locations-of-another-function", ""))
        if O.shape[:2] != want.shape or not torch.equal(O[:, :, 0], want):
            out.append(viol("C16", "pairing", "output[i,j]-does-not-belong-to-branch-i-trunk-j", ""))
            continue
        seen |= {int(v) for v in O[:, :, 0].reshape(-1).tolist()}
    stats["batches"] = nb
    stats["covered"] = len(seen)
    total = F * T
    if len(seen) < total:
        out.append(viol("C16", "coverage", "function-location-pair-never-presented", "",
                        presented=len(seen), total=total, batches=nb,
                        nbb=math.ceil(F / ebb), ntb=math.ceil(T / etb)))
