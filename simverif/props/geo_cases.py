"""Case generators for the geometry engine (C01, C02 and the riding monitors)."""
import math

import numpy as np

from ..core.seed import H, rnd
from ..core import simrng
from ..ref import geometry as G
from .. import gen_geo as GG

N_SPECIAL = (1, 1, 2, 3, 10, 11, 16, 25, 27, 64, 100, 905)


def pick_n(r, big=False):
    c = r.random()
    if c < 0.4:
        return r.choice(N_SPECIAL)
    if c < 0.85 or not big:
        return r.randint(1, 120)
    return r.randint(121, 3000)


def gen_fault(r, seed, p_fault=0.6):
    """Swarm-style fault plan: which kinds are enabled, rate, reject rounds."""
    if r.random() >= p_fault:
        return None
    kinds = [k for k in simrng.RAND_KINDS + simrng.PERM_KINDS + simrng.NORMAL_KINDS if r.random() < 0.4]
    reject = {}
    for s in simrng.REJECT_SITES:
        if r.random() < 0.3:
            reject[s] = r.randint(1, 2 if s == "check_in_b" else 3)
    if not kinds and not reject:
        kinds = [r.choice(simrng.RAND_KINDS)]
    return {"seed": H(seed, "fault"), "rate": r.choice((0.1, 0.3, 0.6, 1.0)), "kinds": kinds,
            "reject": reject, "only": None}


def gen_domain(r, rng, want_boundary=None, allow_tf=True, allow_prod=True, p_param=0.45, max_depth=3):
    """(AST, pspace) of a random in-envelope expression."""
    c = r.random()
    pvar = "t" if r.random() < p_param else None
    p_dep = 0.7 if pvar else 0.0
    if c < 0.12:
        dom = GG.gen_iv(r, "x", pvar, p_dep)
    elif c < 0.2:
        dom = GG.gen_sph(r, "x", pvar, p_dep)
    else:
        depth = min(max_depth, r.choice((0, 0, 1, 1, 1, 2, 2, 3)))
        dom = GG.gen_solid2(r, rng, depth, pvar, p_dep, "x", allow_poly=False, allow_tf=allow_tf)
    if pvar and "t" not in G.free_vars(dom):
        pvar = None
    if want_boundary is None:
        want_boundary = r.random() < 0.35
    if want_boundary:
        if dom["k"] == "iv" and r.random() < 0.4:
            dom = {"k": r.choice(("bleft", "bright")), "d": dom}
        else:
            dom = {"k": "bnd", "d": dom}
    # dependent / independent product with an interval factor
    c = r.random() if allow_prod else 1.0
    n_bool = sum(1 for k_ in G.kinds(dom) if k_ in ("union", "cut", "inter"))
    if n_bool > 1:
        # a product samples its first factor with n=1 for every row; on nested Boolean
        # expressions the library's nested one-point rejection loops multiply their
        # (legitimate) cost beyond any sensible draw budget -> not generated
        c = 1.0
    if pvar and c < 0.25:
        dom = {"k": "prod", "a": dom, "b": {"k": "iv", "var": "t", "a": 0.0, "b": 1.0}}
        pvar = None
    elif pvar and c < 0.32 and not G.is_boundary(dom):
        # the SECOND factor depends on the external parameter as well (its bounds move with t)
        dom = {"k": "prod", "a": dom, "b": GG.gen_iv(rnd(r.random(), "dep-second-factor"), "s", "t", 1.0)}
    elif c < 0.08 and not G.is_boundary(dom):
        dom = {"k": "prod", "a": dom, "b": GG.gen_iv(r, "s")}
    pspace = [["t", 1]] if pvar else []
    return dom, pspace


def gen_prows(r, pspace, allow_unused=True):
    if not pspace:
        if allow_unused and r.random() < 0.15:
            # parameters the domain does not need
            k = r.choice((1, 2, 3))
            return [["u", 1]], [[GG.q(r.uniform(0, 1))] for _ in range(k)]
        return [], []
    k = r.choice((1, 1, 2, 3, 5))
    return pspace, [[GG.q(r.uniform(0, 1)) for _ in pspace] for _ in range(k)]


def gen_filter(r, rng, dom, prows_tab):
    """A half-space filter that keeps 50-85 % of the domain at *every* parameter row
    (the library gives up, as documented, after 20 rounds without a valid point)."""
    try:
        sp = G.space(dom)
        v, d = sp[0]
        base = dom
        while base["k"] in ("bnd",):
            base = base["d"]
        ax = r.randrange(d)
        op = r.choice(("gt", "lt"))
        samples = [G.uniform_sample(base, prow, 200, rng)[v][:, ax] for prow in prows_tab]
        qq = r.uniform(0.15, 0.5)
        c = GG.q(float(np.quantile(samples[0], qq if op == "gt" else 1 - qq)))
        for smp in samples:
            acc = float(np.mean(smp > c if op == "gt" else smp < c))
            if not 0.5 <= acc <= 0.9:
                return None
        return {"var": v, "axis": ax, "op": op, "c": c}
    except Exception:
        return None


def gen_entry(r, rng, dom, pspace, prows, p_density=0.2):
    k = len(prows)
    bnd = G.is_boundary(dom)
    is_prod = dom["k"] == "prod"
    c = r.random()
    dep = bool(G.free_vars(dom))
    density_ok = (k <= 1)
    if c < 0.3:
        e = {"kind": "domain", "method": "random"}
    elif c < 0.42 and not is_prod and k <= 1:
        e = {"kind": "domain", "method": "grid"}
    else:
        cls = r.choice(("RandomUniform", "RandomUniform", "Grid", "Gaussian", "LHS",
                        "AdaptiveThreshold", "AdaptiveRandom"))
        if cls in ("Gaussian", "LHS") and (bnd or is_prod):
            cls = "RandomUniform"
        if cls == "Grid" and is_prod:
            cls = "RandomUniform"
        e = {"kind": "sampler", "cls": cls}
    # excluded cells (DESIGN.md 8.2): adaptive samplers with a density (the point count of
    # rejection-based shapes/filters is random, the samplers raise IndexError -- loud);
    # dependent products with a density (int(d*volume) may be 0 -> raises, volume is a
    # documented 10-point estimate)
    use_d = density_ok and r.random() < p_density and e.get("cls") not in (
        "Gaussian", "LHS", "AdaptiveThreshold", "AdaptiveRandom")
    if use_d and not is_prod:
        e["d"] = r.choice((0.5, 2.0, 7.5, 20.0, 55.0))
    else:
        e["n"] = pick_n(r, big=(r.random() < 0.2))
    if e["kind"] == "sampler":
        fv = G.free_vars(dom)
        tabs = [{v: [row[i]] for i, (v, _) in enumerate(pspace) if v in fv} for row in prows] or [{}]
        prow = tabs[0]
        if e["cls"] in ("RandomUniform", "Grid", "AdaptiveThreshold", "AdaptiveRandom") \
                and r.random() < 0.25 and not is_prod and not fv - set(prow):
            f = gen_filter(r, rng, dom, tabs)
            if f:
                e["filter"] = f
        if e["cls"] == "Gaussian":
            ok = False
            try:
                pts = G.uniform_sample(dom, prow, 50, rng)
                v, dd = G.space(dom)[0]
                mean = [GG.q(float(m)) for m in pts[v][r.randrange(50)]]
                std = r.choice((0.2, 0.5, 1.0, 2.0))
                ok = True
                for tab in tabs:
                    # the rejection loop only terminates in practice if the normal law
                    # puts enough mass on the domain at *every* parameter row
                    z = rng.normal(size=(400, dd)) * std + np.asarray(mean)
                    Pz = {v: z}
                    for pv, val in tab.items():
                        Pz[pv] = np.full((400, 1), float(val[0]))
                    if float(np.mean(G.margin(dom, Pz) >= 0)) < 0.1:
                        ok = False
                e["gauss"] = {"mean": mean, "std": std}
            except Exception:
                ok = False
            if not ok:
                e["cls"] = "RandomUniform"
                e.pop("gauss", None)
        if e["cls"].startswith("Adaptive"):
            e["calls"] = r.choice((1, 2, 3))
            e["ratio"] = r.choice((0.0, 0.25, 0.5, 1.0))
    return e


def gen_case(prop, seed, p_fault=0.6):
    r = rnd(seed, "gen")
    rng = np.random.default_rng(H(seed, "ref") % (2 ** 32))
    if prop == "C06" and 0.04 <= rnd(seed, "single-side").random() < 0.09:
        # "roof + body": a triangle united with a parallelogram one of whose edges lies on the LINE of a triangle leg,
        # continuing beyond the leg's far corner, the body on the other side of that line (collinear boundary pieces:
        # the normal on the overhang belongs to the body, not to the continued leg)
        rq = rnd(seed, "roof-body")
        roof = GG.gen_par(rq, "x", tri=True)
        o = roof["o"]
        d1 = [roof["c1"][0] - o[0], roof["c1"][1] - o[1]]
        d2 = [roof["c2"][0] - o[0], roof["c2"][1] - o[1]]
        if rq.random() < 0.5:
            d1, d2 = d2, d1             # continue the other leg
        al, be, ga = rq.uniform(0.2, 0.8), rq.uniform(1.4, 2.5), rq.uniform(0.4, 1.2)
        bo = [GG.q(o[0] + al * d1[0], 1024.0), GG.q(o[1] + al * d1[1], 1024.0)]
        body = {"k": "par", "var": "x", "o": bo,
                "c1": [GG.q(o[0] + be * d1[0], 1024.0), GG.q(o[1] + be * d1[1], 1024.0)],
                "c2": [GG.q(bo[0] - ga * d2[0], 1024.0), GG.q(bo[1] - ga * d2[1], 1024.0)]}
        first = roof
        if rq.random() < 0.4:
            # a small hole inside the roof keeps the first operand a Boolean expression containing the triangle
            cx, cy = o[0] + 0.3 * (d1[0] + d2[0]), o[1] + 0.3 * (d1[1] + d2[1])
            first = {"k": "cut", "a": roof, "b": {"k": "circ", "var": "x", "c": [GG.q(cx), GG.q(cy)],
                                                   "r": GG.q(0.12 * min(math.hypot(*d1), math.hypot(*d2)))}, "contained": False}
        dom = {"k": "bnd", "d": {"k": "union", "a": first, "b": body} if rq.random() < 0.8 else {"k": "union", "a": body, "b": first}}
        return {"format": 1, "property": prop, "engine": "geosim", "seed": seed, "rng": H(seed, "rng"), "dom": dom,
                "pspace": [], "prows": [], "entry": {"kind": "domain", "method": rq.choice(("random", "grid")),
                                                      "n": rq.choice((20, 60, 150))}, "fault": None}
    if prop == "C06" and rnd(seed, "single-side").random() < 0.04:
        # one end of an interval (boundary_left / boundary_right), possibly after a partial evaluation that fixes the
        # variable the OTHER end depends on (the end itself is constant: F25 covers the remaining case)
        rq = rnd(seed, "single-side-shape")
        a0 = GG.q(rq.uniform(-3, 1))
        b0 = GG.q(a0 + rq.uniform(0.5, 3))
        side = rq.choice(("bleft", "bright"))
        tv = GG.q(rq.uniform(0, 1))
        if side == "bright":
            build = {"k": "iv", "var": "x", "a": ["aff", a0, GG.q(-rq.uniform(0.2, 1.0)), "t"], "b": b0}
        else:
            build = {"k": "iv", "var": "x", "a": a0, "b": ["aff", b0, GG.q(rq.uniform(0.2, 1.0)), "t"]}
        case = {"format": 1, "property": prop, "engine": "geosim", "seed": seed, "rng": H(seed, "rng"),
                "dom": {"k": side, "d": G.subst(build, {"t": tv})}, "pspace": [], "prows": [],
                "entry": {"kind": "domain", "method": rq.choice(("random", "grid")), "n": rq.choice((1, 2, 5))}, "fault": None}
        if rq.random() < 0.7:
            case["dom_build"] = {"k": side, "d": build}
            case["pe_vals"] = {"t": tv}
        return case
    if prop == "C06":
        # boundaries of primitives and of Boolean combinations of primitives, all vertex orders
        dom, pspace = gen_domain(r, rng, want_boundary=True, allow_tf=False, allow_prod=False)
        if dom["k"] != "bnd":
            dom = {"k": "bnd", "d": dom["d"]}
        if r.random() < 0.12:
            # the polygon primitive (shapely), with holes
            dom, pspace = {"k": "bnd", "d": GG.gen_poly_holes(r)}, []
        pspace, prows = gen_prows(r, pspace, allow_unused=False)
        if r.random() < 0.1:
            # vertex orientation depends on the parameter; one batch mixes both orientations
            dom, pspace = {"k": "bnd", "d": GG.gen_flip(r, "x", "t", tri=r.random() < 0.6)}, [["t", 1]]
            prows = [[GG.q(r.choice((r.uniform(0, 0.3), r.uniform(0.7, 1.0))))] for _ in range(r.choice((2, 3, 5)))]
        entry = {"kind": "domain", "method": r.choice(("random", "random", "grid")) if len(prows) <= 1 else "random",
                 "n": r.choice((1, 2, 3, 7, 16, 50, 120, 400))}
        fault = gen_fault(r, seed, 0.7)
        if fault is not None and r.random() < 0.6:
            fault["kinds"] = sorted(set(fault["kinds"]) | {r.choice(("edge0", "edge1", "lattice", "half"))})
    elif prop == "C18" and r.random() < 0.12:
        # LHS on boxes of unequal side lengths (clause iv: proposals cover the whole box)
        if r.random() < 0.3:
            dom = GG.gen_iv(r, "x")
        else:
            w, h = r.choice((0.5, 1.0, 3.0)), r.choice((0.5, 1.0, 3.0))
            ox, oy = GG.q(r.uniform(-3, 1)), GG.q(r.uniform(-3, 1))
            dom = {"k": "par", "var": "x", "o": [ox, oy], "c1": [GG.q(ox + w), oy], "c2": [ox, GG.q(oy + h)]}
        pspace, prows = [], []
        entry = {"kind": "sampler", "cls": "LHS", "n": r.choice((1, 2, 5, 20, 100))}
        fault = None
    elif prop in ("C01", "C02") and rnd(seed, "lhs-boolean").random() < 0.04:
        # Latin-hypercube sampling of a Boolean combination whose first operand fills its bounding box (interval or
        # axis-parallel rectangle): the library's volume() of such combinations is an estimate that can equal the box
        rb = rnd(seed, "lhs-boolean-shape")
        if rb.random() < 0.3:
            a0 = GG.q(rb.uniform(-3, 0))
            A = {"k": "iv", "var": "x", "a": a0, "b": GG.q(a0 + rb.uniform(2, 4))}
            Bn = {"k": "iv", "var": "x", "a": GG.q(a0 + rb.uniform(0.5, 1.0)), "b": GG.q(a0 + rb.uniform(1.2, 1.8))}
        else:
            ox, oy, w, h = GG.q(rb.uniform(-2, 1)), GG.q(rb.uniform(-2, 1)), GG.q(rb.uniform(1.5, 3)), GG.q(rb.uniform(1.5, 3))
            A = {"k": "par", "var": "x", "o": [ox, oy], "c1": [ox + w, oy], "c2": [ox, oy + h]}
            if rb.random() < 0.6:
                Bn = {"k": "circ", "var": "x", "c": [GG.q(ox + w * rb.uniform(0.2, 0.8)), GG.q(oy + h * rb.uniform(0.2, 0.8))],
                      "r": GG.q(min(w, h) * rb.uniform(0.2, 0.45))}
            else:
                Bn = {"k": "par", "var": "x", "o": [GG.q(ox + w / 2), GG.q(oy + h / 2)], "c1": [GG.q(ox + 1.5 * w), GG.q(oy + h / 2)],
                      "c2": [GG.q(ox + w / 2), GG.q(oy + 1.5 * h)]}
        op = rb.choice(("cut", "cut", "inter", "union"))
        dom = {"k": op, "a": A, "b": Bn}
        pspace, prows = [], []
        entry = {"kind": "sampler", "cls": "LHS", "n": rb.choice((5, 20, 60, 200))}
        fault = gen_fault(r, seed, 0.3)
    elif prop == "C10":
        dom, pspace = gen_domain(r, rng, max_depth=2)
        pspace, prows = gen_prows(r, pspace, allow_unused=False)
        prows = prows[:1] if r.random() < 0.7 else prows
        entry = gen_entry(r, rng, dom, [tuple(p) for p in pspace], prows, p_density=0.6)
        fault = gen_fault(r, seed, 0.3)
    else:
        dom, pspace = gen_domain(r, rng)
        pspace, prows = gen_prows(r, pspace)
        entry = gen_entry(r, rng, dom, [tuple(p) for p in pspace], prows)
        fault = gen_fault(r, seed, p_fault)
        if prop in ("C01", "C02") and entry.get("cls", "").startswith("Adaptive") and entry.get("calls", 1) > 1 and prows:
            # histories whose rounds are called with different parameter rows: rotations of
            # the same rows (filters and means were validated at exactly these rows)
            r2 = rnd(seed, "adaptive-params")
            if len(prows) >= 2 and r2.random() < 0.7:
                entry["prows_seq"] = [prows[j + 1:] + prows[:j + 1] for j in range(entry["calls"] - 1)]
            elif len(prows) == 1 and not entry.get("filter") and r2.random() < 0.7:
                entry["prows_seq"] = [[[GG.q(r2.uniform(0, 1)) for _ in pspace]] for _ in range(entry["calls"] - 1)]
    return {"format": 1, "property": prop, "engine": "geosim", "seed": seed,
            "rng": H(seed, "rng"), "dom": dom, "pspace": pspace, "prows": prows,
            "entry": entry, "fault": fault}
