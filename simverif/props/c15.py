"""C15 -- static and adaptive samplers follow their documented state machines."""
from . import sampler_cases
from .. import samplersim
from .geo_common import COMPONENTS, GEO_ASSUMPTIONS

ID = "C15"
LEVEL = "exploration"
PROBES = ("ops_judged",)
RULE = ("histories of <= 40 operations (sample, sample(device='cpu'), next, len, re-make_static(r')) on a static sampler over "
        "a generated base sampler expression with r in {1,2,3,5,7,inf}, judged by R-static (a set of admissible ages: after "
        "re-make_static with a CHANGED interval both 'age continues' and 'age restarts' are accepted; with the same interval - 40 % of the re-staticisings - the age must continue): the identical tensor for exactly r consecutive "
        "uses counted from the draw, then a fresh draw ('fresh' = the base sampler was really called and, for random bases, the "
        "seam saw draws); non-static twins draw on every call. Adaptive samplers: histories of generated loss vectors (ties, "
        "all-equal, single maximum, lattice values for exact thresholds), R-adaptive: row count constant, threshold variant keeps "
        "exactly the rows with loss >= min+ratio*(max-min) bitwise and replaces the others by the fresh draw observed at the seam, "
        "random variant replaces exactly where loss < min+(max-min)*u for the uniform u observed at the seam, maximal rows kept, "
        "all points in the domain, and on fault-free streams the keep frequency of mid-loss rows equals (l-min)/(max-min) "
        "(z-test, alpha=1e-9). non-trivial = at least one operation judged; distinct = (kind, base shape, r|ratio, fired faults, history length)")
ASSUMPTIONS = GEO_ASSUMPTIONS + [
    "excluded: stored point sets with 0 rows (density samplers on tiny domains); adaptive samplers are driven with (n,) losses "
    "and a fixed n (density / filter make the count random and the library raises IndexError -- loud)",
    "next() is modelled as returning the stored set without ageing it"]


def budget(tier):
    return {"cases": 4000 if tier == "quick" else 150000, "wall": 600 if tier == "quick" else 3000,
            "shrink": 80, "det_legs": 6}


def gen_case(seed, tier="quick"):
    return sampler_cases.gen_c15(seed)


def run_case(case):
    return samplersim.run_c15(case)


def shrink(case):
    h = case["history"]
    if case.get("fault"):
        yield dict(case, fault=None)
    if len(h) > 2:
        yield dict(case, history=h[:len(h) // 2])
    for i in range(len(h) - 1, 0, -1):
        yield dict(case, history=h[:i] + h[i + 1:])
