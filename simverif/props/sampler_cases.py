"""Generators for sampler-expression histories (C02) and static/adaptive histories (C15)."""
import json

import numpy as np

from ..core.seed import H, rnd
from ..ref import geometry as G
from .. import gen_geo as GG
from . import geo_cases as GC


def _leaf(r, rng, var, dep_on=None, dimn=None, allow_filter=True, n=None, classes=None):
    dimn = dimn or r.choice((1, 2, 2, 2, 3))
    p_dep = 0.9 if dep_on else 0.0
    if dimn == 1:
        dom = GG.gen_iv(r, var, dep_on, p_dep)
    elif dimn == 3:
        dom = GG.gen_sph(r, var, dep_on, p_dep)
    else:
        depth = r.choice((0, 0, 0, 1, 1, 2))
        dom = GG.gen_solid2(r, rng, depth, dep_on, p_dep, var, allow_tf=(r.random() < 0.3))
    if r.random() < 0.25 and dom["k"] != "iv":
        dom = {"k": "bnd", "d": dom}
    cls = r.choice(classes or ("RandomUniform", "RandomUniform", "Grid", "Grid", "LHS", "Gaussian"))
    if cls in ("LHS", "Gaussian") and G.is_boundary(dom):
        cls = "RandomUniform"
    if dom["k"] == "iv" and not G.free_vars(dom) and classes is None and r.random() < 0.25:
        # the non-equidistant interval grid (builds its grid from len(self))
        return {"s": "leaf", "cls": "ExpInterval", "dom": dom, "n": n or r.choice((1, 2, 3, 5, 8, 16)),
                "exp": r.choice((0.5, 2.0, 3.0))}
    node = {"s": "leaf", "cls": cls, "dom": dom}
    if n is None and cls in ("RandomUniform", "Grid") and r.random() < 0.2 and not (dep_on and G.free_vars(dom)):
        node["d"] = r.choice((0.5, 2.0, 7.5, 20.0))
    else:
        node["n"] = n or r.choice((1, 1, 2, 3, 5, 8, 16, 27, 40))
    fv = G.free_vars(dom)
    tabs = [{v: [t] for v in fv} for t in (0.0, 0.5, 1.0)] if fv else [{}]
    if cls == "Gaussian":
        e = {"cls": "Gaussian"}
        try:
            pts = G.uniform_sample(dom, tabs[len(tabs) // 2], 50, rng)
            v, dd = G.space(dom)[0]
            mean = [GG.q(float(m)) for m in pts[v][r.randrange(50)]]
            std = r.choice((0.5, 1.0, 2.0))
            ok = True
            for tab in tabs:
                z = rng.normal(size=(400, dd)) * std + np.asarray(mean)
                Pz = {v: z}
                for pv, val in tab.items():
                    Pz[pv] = np.full((400, 1), float(val[0]))
                ok &= float(np.mean(G.margin(dom, Pz) >= 0)) >= 0.1
            node["gauss"] = {"mean": mean, "std": std}
        except Exception:
            ok = False
        if not ok:
            node["cls"] = "RandomUniform"
            node.pop("gauss", None)
    if allow_filter and node["cls"] in ("RandomUniform", "Grid") and r.random() < 0.2:
        f = GC.gen_filter(r, rng, dom, tabs)
        if f:
            node["filter"] = f
    return node


def _data(r, var, d, rows):
    return {"s": "data", "space": [[var, d]],
            "rows": [[GG.q(r.uniform(0, 1)) for _ in range(d)] for _ in range(rows)]}


def gen_tree(r, rng):
    c = r.random()
    if c < 0.15:
        return _leaf(r, rng, "x")
    if c < 0.35:   # independent product
        b = _leaf(r, rng, "t", dimn=1) if r.random() < 0.75 else _data(r, "t", 1, r.choice((1, 2, 5)))
        a = _leaf(r, rng, "x") if r.random() < 0.85 else _data(r, "x", 2, r.choice((1, 3, 4)))
        return {"s": "prod", "a": a, "b": b}
    if c < 0.55:   # dependent product: first factor depends on the second's variable
        b = {"s": "leaf", "cls": r.choice(("RandomUniform", "Grid")), "n": r.choice((1, 2, 3, 6)),
             "dom": {"k": "iv", "var": "t", "a": 0.0, "b": 1.0}}
        a = _leaf(r, rng, "x", dep_on="t", dimn=r.choice((1, 2, 2)), classes=("RandomUniform", "Grid", "Gaussian", "LHS"))
        return {"s": "prod", "a": a, "b": b}
    if c < 0.65:
        a = _leaf(r, rng, "x", dimn=2)
        b = _leaf(r, rng, "x", dimn=2)
        node = {"s": "sum", "a": a, "b": b}
        if r.random() < 0.3:
            node = {"s": "prod", "a": node, "b": _leaf(r, rng, "t", dimn=1)}
        return node
    if c < 0.75:
        n = r.choice((1, 2, 5, 9, 16))
        a = _leaf(r, rng, "x", n=n, allow_filter=False)
        b = _leaf(r, rng, "y", n=n, allow_filter=False) if r.random() < 0.7 else _data(r, "y", 1, n)
        return {"s": "append", "a": a, "b": b}
    if c < 0.9:
        inner = gen_tree(r, rng)
        if inner["s"] == "static":
            return inner
        return {"s": "static", "a": inner, "r": r.choice((None, None, 1, 2, 3))}
    # three factors (sizes kept small: rows multiply)
    return {"s": "prod", "a": {"s": "prod", "a": _leaf(r, rng, "x", n=r.choice((1, 2, 5))),
                               "b": _leaf(r, rng, "y", dimn=1, n=r.choice((1, 2, 4)))},
            "b": _leaf(r, rng, "t", dimn=1, n=r.choice((1, 3, 5)))}


def _needs(node):
    """Variables the expression needs from outside."""
    s = node["s"]
    if s == "leaf":
        return set(G.free_vars(node["dom"]))
    if s in ("data", "empty"):
        return set()
    if s == "static":
        return _needs(node["a"])
    if s == "prod":
        have = set()
        def own(n):
            if n["s"] == "leaf":
                return {v for v, _ in G.space(n["dom"])}
            if n["s"] == "data":
                return {v for v, _ in n["space"]}
            out = set()
            for c in ("a", "b"):
                if c in n and isinstance(n[c], dict):
                    out |= own(n[c])
            return out
        return (_needs(node["a"]) - own(node["b"])) | _needs(node["b"])
    return _needs(node["a"]) | _needs(node["b"])


def gen_c02(seed):
    r = rnd(seed, "gen")
    rng = np.random.default_rng(H(seed, "ref") % (2 ** 32))
    tree = gen_tree(r, rng)
    need = sorted(_needs(tree))
    pspace = [[v, 1] for v in need]
    if not need and r.random() < 0.2 and "append" not in json.dumps(tree):
        # (appended samplers would both carry the external variable: join refuses, loudly)
        pspace = [["u", 1]]
    hist = []
    has_static = tree["s"] == "static"
    for _ in range(r.choice((1, 2, 2, 3, 4, 6))):
        c = r.random()
        if c < 0.3:
            hist.append({"op": "len"})
        k = 0
        if pspace and (need or r.random() < 0.6):
            k = r.choice((1, 2, 3)) if not has_static else r.choice((1, 2))
        hist.append({"op": "sample", "prows": [[GG.q(r.uniform(0, 1)) for _ in pspace] for _ in range(k)]})
        if r.random() < 0.4:
            hist.append({"op": "len"})
    if need:
        for op in hist:
            if op["op"] == "sample" and not op["prows"]:
                op["prows"] = [[GG.q(r.uniform(0, 1)) for _ in pspace]]
    if has_static:
        # a static sampler is asked with one and the same parameter batch (how conditions use it)
        first = next(op for op in hist if op["op"] == "sample")["prows"]
        for op in hist:
            if op["op"] == "sample":
                op["prows"] = first
    return {"format": 1, "property": "C02", "engine": "samplersim", "seed": seed, "rng": H(seed, "rng"),
            "samp": tree, "pspace": pspace, "history": hist, "fault": GC.gen_fault(r, seed, 0.5)}


def gen_c15(seed):
    r = rnd(seed, "gen")
    rng = np.random.default_rng(H(seed, "ref") % (2 ** 32))
    if r.random() < 0.55:
        base = gen_tree(r, rng)
        while base["s"] == "static" or _needs(base):
            base = _leaf(r, rng, "x")
        hist = []
        for _ in range(r.randint(3, 40)):
            c = r.random()
            if c < 0.6:
                hist.append({"op": "sample"})
            elif c < 0.7:
                hist.append({"op": "sample_dev"})
            elif c < 0.8:
                hist.append({"op": "next"})
            elif c < 0.9:
                hist.append({"op": "len"})
            else:
                rr = r.choice((None, 1, 2, 3, 5, 7))
                hist.append({"op": "restatic", "r": "same" if r.random() < 0.4 else rr})
        from ..samplersim import shape_of
        sh = shape_of(base)
        return {"format": 1, "property": "C15", "engine": "samplersim", "kind": "static", "seed": seed,
                "rng": H(seed, "rng"), "base": base, "base_cls": sh, "base_random": _is_random(base),
                "r": r.choice((None, 1, 2, 3, 5, 7)), "history": hist, "fault": GC.gen_fault(r, seed, 0.4)}
    # adaptive
    dimn = r.choice((1, 2, 2, 3))
    if dimn == 1:
        dom = GG.gen_iv(r, "x")
    elif dimn == 3:
        dom = GG.gen_sph(r, "x")
    else:
        dom = GG.gen_solid2(r, rng, r.choice((0, 0, 1)), None, 0.0, "x", allow_tf=False)
    cls = r.choice(("AdaptiveThreshold", "AdaptiveRandom"))
    n = r.choice((1, 2, 3, 8, 16, 64))
    hist = [{"loss": None}]
    lattice = r.random() < 0.7
    for _ in range(r.randint(2, 30)):
        c = r.random()
        if c < 0.1:
            loss = [1.0] * n                      # all equal
        elif c < 0.2:
            loss = [0.0] * n
            loss[r.randrange(n)] = 2.0            # one maximum
        elif lattice:
            loss = [r.randrange(9) / 8.0 for _ in range(n)]   # ties, exact arithmetic
        else:
            loss = [GG.q(r.uniform(0, 3), 1024.0) for _ in range(n)]
        hist.append({"loss": loss})
    if cls == "AdaptiveRandom" and r.random() < 0.5:
        # long fault-free history for the frequency clause
        hist = [{"loss": None}] + [{"loss": [r.randrange(9) / 8.0 for _ in range(n)]} for _ in range(60)]
        fault = None
    else:
        fault = GC.gen_fault(r, seed, 0.4)
    case = {"format": 1, "property": "C15", "engine": "samplersim", "kind": "adaptive", "cls": cls, "seed": seed,
            "rng": H(seed, "rng"), "dom": dom, "n": n, "ratio": r.choice((0.0, 0.25, 0.5, 0.75, 1.0)) if rnd(seed, "ratio-range").random() < 0.85 else
            rnd(seed, "ratio-value").choice((-0.5, 1.25, 2.0)),       # the documented threshold min + ratio*(max-min) for any ratio
            "history": hist, "fault": fault}
    rf = rnd(seed, "adaptive-filter")
    if rf.random() < 0.3 and not G.is_boundary(dom):
        f = GC.gen_filter(rf, rng, dom, [{}])
        if f:
            case["filter"] = f
    return case


def _is_random(node):
    s = node["s"]
    if s == "leaf":
        return node["cls"] in ("RandomUniform", "Gaussian", "LHS")
    if s in ("data", "empty"):
        return False
    if s == "static":
        return False
    if s in ("prod", "append"):
        return _is_random(node["a"]) or _is_random(node["b"])
    return _is_random(node["a"]) or _is_random(node["b"])
