"""C14 -- conditions are isolated from each other and repeatable."""
from . import cond_cases
from .. import condsim

ID = "C14"
LEVEL = "exploration"
PROBES = ("evals_judged", "repeats", "constructed")
RULE = ("2-4 conditions (PINN/Mean/SingleModule/AdaptiveWeights/Periodic; fresh / static / finite-interval samplers) that share "
        "user-supplied objects (one data-function dictionary object, domains, the default Parameter.empty()/EmptySampler() arguments) "
        "and a *schedule* interleaving construct(i), evaluate(i, iteration=t|None) chosen by the simulator. Reference = the solo "
        "world: each condition is also built alone by running the same construction recipe again on fresh inputs (no deepcopy: "
        "spaces do not pickle); before every operation the simulator reseeds its draw stream with H(seed, op index) in both worlds. "
        "Oracle: (a) every evaluate(i) returns the solo world's loss (rel 1e-6) and fails iff the solo one fails; (b) after every "
        "operation the user's dictionary holds the same objects under the same keys; (c) a condition with a never-resampling static "
        "sampler evaluated again without optimisation returns the identical loss; (d) periodic left/right data on their own side "
        "(C04's oracle). DeepONet leg: 1-2 DeepONets, 1-3 function sets, 2-4 PI-DeepONet conditions sharing networks and/or function sets, "
        "driven by the Solver's protocol (training steps: every training condition with the step number; validation steps: "
        "iteration=None; simulated optimiser steps in between); every evaluation is compared with the solo world (same recipe alone, "
        "same weight changes) and with the loss recomputed outside the condition on a twin network. non-trivial = >= 1 evaluation compared; distinct = (condition kinds, sharing pattern, history length)")
ASSUMPTIONS = ["one NON-static, non-adaptive sampler object over x may be shared by several conditions (alone, in a product, as non-periodic sampler); shared static / adaptive samplers (stateful by design) and a model being trained are not in the property's list and are not generated",
               "DeepONet leg (20 % of the cases, engine donsim): function sets take their parameters from a DataSampler, so that the loss is a function of weights, function family and trunk points alone"]
COMPONENTS = {"real": ["torchphysics conditions, samplers, UserFunction"], "owned_by_simulator": ["order of construct/evaluate events", "per-operation draw streams (same in both worlds)"],
              "stubbed_or_disabled": ["closed-form Model"]}


def budget(tier):
    return {"cases": 3000 if tier == "quick" else 100000, "wall": 600 if tier == "quick" else 3000, "shrink": 60, "det_legs": 6}


def gen_case(seed, tier="quick"):
    from ..core.seed import rnd
    if rnd(seed, "engine").random() < 0.2:
        return cond_cases.gen_c14_don(seed)
    return cond_cases.gen_c14(seed)


def run_case(case):
    if case.get("engine") == "donsim":
        from .. import donsim
        return donsim.run_c14_don(case)
    return condsim.run_c14(case)


def shrink(case):
    h = case["history"]
    for i in range(len(h) - 1, -1, -1):
        if len(h) > 1:
            yield dict(case, history=h[:i] + h[i + 1:])
    if case.get("engine") == "donsim":
        for i in range(len(case["conds"]) - 1, -1, -1):
            if len(case["conds"]) > 1:
                # drop condition i (indices in the orders shift down)
                conds = case["conds"][:i] + case["conds"][i + 1:]
                hh = []
                for op in h:
                    if "order" in op:
                        o = [j - (j > i) for j in op["order"] if j != i]
                        if o:
                            hh.append(dict(op, order=o))
                    else:
                        hh.append(op)
                if hh:
                    yield dict(case, conds=conds, history=hh)
        return
    if case["sharing"].get("domains"):
        yield dict(case, sharing=dict(case["sharing"], domains=False))
