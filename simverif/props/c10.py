"""C10 -- volume() is the true measure of the domain (partial claim)"""
from . import geo_cases
from .. import geosim
from .geo_common import *  # noqa

ID = "C10"
LEVEL = "exploration"
PROBES = ('volumes_judged', 'volumes_direct', 'density_judged', 'count_tests', 'ops_judged')
RULE = ('geometry cases with density entries over-weighted; judged: (i) every volume(params) the library computed during simulated sampling on every node (monitor) and volume(params) of the root against R-geo closed forms / composition rules (rtol 1e-4, one positive value per row), (ii) density sampling: rows == ceil(d*mu) for closed-form primitives and their boundaries (float rounding at integers accepted), grid rows in [0|1, ceil(d*mu)+leaves-1], (iii) pooled mean count of rejection-based shapes and Boolean combinations against d*mu_true (z-test alpha=1e-9, mu_true by quadrature of the reference margin) (40 pooled calls per case in quick, 400 in thorough), (iv) histories: set_volume (number, 0-dim tensor, (1,1) tensor, function of the parameter) then volume / density count / partial evaluation / translation / rotation / product / disjoint union, operations possibly repeated, and volume() again as the last step (the stored user value must survive). non-trivial = at least one volume or count judged')
ASSUMPTIONS = GEO_ASSUMPTIONS + ['volume() of expressions without an exact value (non-disjoint unions, non-contained cuts, intersections, dependent products) is only checked for shape/positivity where monitored']


def budget(tier):
    return {"cases": 5000 if tier == "quick" else 150000, "wall": 600 if tier == "quick" else 3000,
            "shrink": 80, "det_legs": 6}


def gen_case(seed, tier="quick"):
    import numpy as np
    from ..core.seed import H, rnd
    from .. import gen_geo as GG
    r = rnd(seed, "engine")
    c = r.random()
    if c < 0.05:
        # long thin parallelograms with a low density: the lattice of a grid sample degenerates in the
        # short direction (aspect ratio far above the requested count)
        import math
        rs = rnd(seed, "strip")
        L, w = rs.uniform(4.0, 80.0), rs.uniform(0.05, 0.4)
        ang = rs.uniform(0, 2 * math.pi)
        ox, oy = GG.q(rs.uniform(-3, 3)), GG.q(rs.uniform(-3, 3))
        e1 = (L * math.cos(ang), L * math.sin(ang))
        e2 = (-w * math.sin(ang), w * math.cos(ang))
        if rs.random() < 0.3:
            e1, e2 = e2, e1
        dom = {"k": "par", "var": "x", "o": [ox, oy], "c1": [GG.q(ox + e1[0], 1024.0), GG.q(oy + e1[1], 1024.0)],
               "c2": [GG.q(ox + e2[0], 1024.0), GG.q(oy + e2[1], 1024.0)]}
        if rs.random() < 0.3:
            dom = {"k": "transl", "d": dom, "v": [GG.q(rs.uniform(-1, 1)), GG.q(rs.uniform(-1, 1))]}
        d = rs.choice((0.3, 1.05, 2.0, 4.0)) / (L * w) * rs.choice((1, 3, 8))
        entry = {"kind": "domain", "method": "grid", "d": d} if rs.random() < 0.5 else {"kind": "sampler", "cls": "Grid", "d": d}
        return {"format": 1, "property": ID, "engine": "geosim", "seed": seed, "rng": H(seed, "rng"), "dom": dom,
                "pspace": [], "prows": [], "entry": entry, "fault": None}
    if c < 0.11:
        # partial evaluations of one original whose shape function has TWO outer variables (t, s)
        rq = rnd(seed, "pe")
        a2 = lambda base, lo=0.1, hi=0.6: ["aff2", GG.q(base), GG.q(rq.uniform(lo, hi)), "t", GG.q(rq.uniform(lo, hi)), "s"]
        k = rq.choice(("circ", "iv", "par", "sph", "cutc"))
        if k == "cutc":
            # a cut declared contained (|A| - |B|): the flag must survive the partial evaluation
            ox, oy, w = GG.q(rq.uniform(-2, 0)), GG.q(rq.uniform(-2, 0)), GG.q(rq.uniform(3.0, 4.0))
            dom = {"k": "cut", "contained": True,
                   "a": {"k": "par", "var": "x", "o": [ox, oy], "c1": [ox + w, oy], "c2": [ox, oy + w]},
                   "b": {"k": "circ", "var": "x", "c": [GG.q(ox + w / 2), GG.q(oy + w / 2)],
                         "r": ["aff2", GG.q(rq.uniform(0.2, 0.4)), GG.q(rq.uniform(0.1, 0.4)), "t", GG.q(rq.uniform(0.1, 0.4)), "s"]}}
        elif k == "circ":
            dom = {"k": "circ", "var": "x", "c": [GG.q(rq.uniform(-2, 2)), GG.q(rq.uniform(-2, 2))], "r": a2(rq.uniform(0.3, 1.0))}
        elif k == "sph":
            dom = {"k": "sph", "var": "x", "c": [GG.q(rq.uniform(-2, 2)) for _ in range(3)], "r": a2(rq.uniform(0.3, 1.0))}
        elif k == "iv":
            a = GG.q(rq.uniform(-3, 0))
            dom = {"k": "iv", "var": "x", "a": a, "b": a2(a + rq.uniform(0.5, 2.0))}
        else:
            ox, oy = GG.q(rq.uniform(-2, 1)), GG.q(rq.uniform(-2, 1))
            dom = {"k": "par", "var": "x", "o": [ox, oy], "c1": [a2(ox + rq.uniform(0.5, 2.0)), oy], "c2": [ox, GG.q(oy + rq.uniform(0.5, 2.0))]}
        if rq.random() < 0.3 and k not in ("iv", "cutc"):
            dom = {"k": "bnd", "d": dom}
        ops = []
        for _ in range(rq.choice((2, 3, 4))):
            tv, sv = GG.q(rq.uniform(0, 1)), GG.q(rq.uniform(0, 1))
            which = rq.choice(("t", "s", "t", "s", "ts"))
            fix = {"t": tv} if which == "t" else ({"s": sv} if which == "s" else {"t": tv, "s": sv})
            rest = {v: x for v, x in (("t", tv), ("s", sv)) if v not in fix}
            ops.append({"fix": fix, "rest": rest, "recheck": rq.random() < 0.4})
        return {"format": 1, "property": ID, "seed": seed, "rng": H(seed, "rng"), "fault": None, "engine": "volumesim",
                "kind": "pe", "dom": dom, "ops": ops, "full": {"t": GG.q(rq.uniform(0, 1)), "s": GG.q(rq.uniform(0, 1))}}
    if c < 0.16:
        # vertex orientation that flips BETWEEN the parameter rows of one batch (one positive volume per row)
        rf = rnd(seed, "flip")
        dom = GG.gen_flip(rf, "x", "t", tri=rf.random() < 0.6)
        if rf.random() < 0.3:
            dom = {"k": "bnd", "d": dom}
        rows = [[GG.q(rf.choice((rf.uniform(0, 0.3), rf.uniform(0.7, 1.0))))] for _ in range(rf.choice((2, 3, 4, 5)))]
        if rf.random() < 0.8:
            rows[0], rows[-1] = [GG.q(rf.uniform(0, 0.3))], [GG.q(rf.uniform(0.7, 1.0))]
            if rf.random() < 0.5:
                rows.reverse()
        entry = {"kind": "domain", "method": "random", "n": rf.choice((1, 3, 10))}
        return {"format": 1, "property": ID, "engine": "geosim", "seed": seed, "rng": H(seed, "rng"), "dom": dom,
                "pspace": [["t", 1]], "prows": rows, "entry": entry, "fault": None}
    if c < 0.80:
        return geo_cases.gen_case(ID, seed)
    rng = np.random.default_rng(H(seed, "ref") % (2 ** 32))
    base = {"format": 1, "property": ID, "seed": seed, "rng": H(seed, "rng"), "fault": None}
    if c < 0.88:
        # (iii) pooled mean count of rejection-based shapes and Boolean combinations (parameter free)
        rin = rnd(seed, "inner-union")
        if rin.random() < 0.25:
            # a union whose second operand lies INSIDE the first (an inclusion): the measure is |A|, every point of B
            # is a duplicate candidate
            if rin.random() < 0.5:
                ox, oy, w, h = GG.q(rin.uniform(-2, 1)), GG.q(rin.uniform(-2, 1)), GG.q(rin.uniform(1.5, 3)), GG.q(rin.uniform(1.5, 3))
                A = {"k": "par", "var": "x", "o": [ox, oy], "c1": [ox + w, oy], "c2": [ox, oy + h]}
                cx, cy, rr = ox + w / 2, oy + h / 2, GG.q(min(w, h) * rin.uniform(0.15, 0.4))
            else:
                cx, cy, R = GG.q(rin.uniform(-2, 2)), GG.q(rin.uniform(-2, 2)), GG.q(rin.uniform(1.0, 2.0))
                A = {"k": "circ", "var": "x", "c": [cx, cy], "r": R}
                rr = GG.q(R * rin.uniform(0.2, 0.6))
            Bn = {"k": "circ", "var": "x", "c": [GG.q(cx), GG.q(cy)], "r": rr} if rin.random() < 0.6 else \
                {"k": "par", "var": "x", "o": [GG.q(cx - rr / 2), GG.q(cy - rr / 2)], "c1": [GG.q(cx + rr / 2), GG.q(cy - rr / 2)],
                 "c2": [GG.q(cx - rr / 2), GG.q(cy + rr / 2)]}
            dom = {"k": "union", "a": A, "b": Bn}
        elif r.random() < 0.3:
            dom = GG.gen_par(r, "x", tri=True)
        else:
            dom = None
            for _ in range(20):
                dom = GG.gen_bool(r, rng, GG.gen_prim2(r, "x"), [], "x")
                if dom is not None:
                    break
            if dom is None:
                dom = GG.gen_par(r, "x", tri=True)
        base.update(engine="volumesim", kind="count", dom=dom, d=r.choice((20.0, 55.0, 130.0)),
                    calls=40 if tier == "quick" else 400, via=r.choice(("domain", "sampler")))
        return base
    # (iv) set_volume histories
    pvar = "t" if r.random() < 0.5 else None
    k = r.choice(("iv", "circ", "par", "tri"))
    dom = GG.gen_iv(r, "x", pvar, 0.8) if k == "iv" else (GG.gen_circ(r, "x", pvar, 0.8) if k == "circ"
                                                         else GG.gen_par(r, "x", pvar, 0.8, tri=(k == "tri")))
    dep = bool(G.free_vars(dom))
    vol = {"aff": [r.choice((2.0, 3.5)), r.choice((1.0, 4.0))]} if (dep and r.random() < 0.6) else {"c": r.choice((0.75, 2.5, 7.0))}
    ops = [o for o in ("volume", "density", "call", "translate", "rotate", "product", "union") if r.random() < 0.6] or ["volume"]
    if k == "iv":
        ops = [o for o in ops if o not in ("rotate",)] or ["volume"]
    r.shuffle(ops)
    r3 = rnd(seed, "hist-extra")
    if "c" in vol:
        vol["as"] = r3.choice(("float", "tensor0", "tensor11"))
    if r3.random() < 0.6:
        ops = ops + [r3.choice(ops) for _ in range(r3.choice((1, 2, 3)))]      # the same operation more than once
    base.update(engine="volumesim", kind="hist", dom=dom, pspace=[["t", 1]] if dep else [], t=GG.q(r.uniform(0, 1)),
                volume=vol, ops=ops, d=r.choice((3.0, 20.0)), exact_count=(k in ("iv", "circ", "par")))
    return base


def run_case(case):
    if case.get("engine") == "volumesim":
        from .. import volumesim
        if case["kind"] == "pe":
            return volumesim.run_pe(case)
        return volumesim.run_count(case) if case["kind"] == "count" else volumesim.run_hist(case)
    rec = geosim.run_case(case, props=(ID,))
    finish(rec, case, judged_key='volumes_direct')
    return rec


def shrink(case):  # noqa: F811 (overrides the geometry shrinker for the history cases)
    if case.get("engine") == "volumesim":
        if case["kind"] in ("hist", "pe") and len(case["ops"]) > 1:
            for i in range(len(case["ops"])):
                yield dict(case, ops=case["ops"][:i] + case["ops"][i + 1:])
        return
    from . import geo_common
    yield from geo_common.shrink(case)
