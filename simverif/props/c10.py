"""C10 -- volume() is the true measure of the domain (partial claim)"""
from . import geo_cases
from .. import geosim
from .geo_common import *  # noqa

ID = "C10"
LEVEL = "exploration"
PROBES = ('volumes_judged', 'volumes_direct', 'density_judged')
RULE = ('geometry cases with density entries over-weighted; judged: (i) every volume(params) the library computed during simulated sampling on every node (monitor) and volume(params) of the root against R-geo closed forms / composition rules (rtol 1e-4, one positive value per row), (ii) density sampling: rows == ceil(d*mu) for closed-form primitives and their boundaries (float rounding at integers accepted), grid rows in [0|1, ceil(d*mu)+leaves-1], (iii) pooled mean count of rejection-based shapes and Boolean combinations against d*mu_true (z-test alpha=1e-9, mu_true by quadrature of the reference margin) in the thorough pre-phase, (iv) histories: set_volume / flags through partial evaluation, translation, rotation. non-trivial = at least one volume or count judged')
ASSUMPTIONS = GEO_ASSUMPTIONS + ['volume() of expressions without an exact value (non-disjoint unions, non-contained cuts, intersections, dependent products) is only checked for shape/positivity where monitored']


def budget(tier):
    return {"cases": 5000 if tier == "quick" else 150000, "wall": 600 if tier == "quick" else 3300,
            "shrink": 80, "det_legs": 6}


def gen_case(seed, tier="quick"):
    return geo_cases.gen_case(ID, seed)


def run_case(case):
    rec = geosim.run_case(case, props=(ID,))
    finish(rec, case, judged_key='volumes_direct')
    return rec
