"""C02 -- samplers return exactly n points per parameter row, paired in order."""
from . import geo_cases, sampler_cases
from .. import geosim, samplersim
from ..core.seed import rnd
from . import geo_common
from .geo_common import COMPONENTS, GEO_ASSUMPTIONS

ID = "C02"
LEVEL = "exploration"
PROBES = ("apply_filter", "check_in_b", "const", "tie", "edge0")
RULE = ("half of the cases: geometry cases of C01 judged for row counts / spaces / bit-identical parameter pairing / len(); "
        "other half: histories (len, sample with k=0..3 external rows, repeated calls) on sampler *expressions* "
        "(leaf RandomUniform/Grid/LHS/Gaussian/Data, *, dependent *, +, append, make_static) with a recording proxy on "
        "every node, judged by R-count: rows == n*max(k,1) per leaf, first factor asked with exactly the partner "
        "sample, complete identical grid block per partner point, sum = concatenation, append = column stack, "
        "dependent factor inside its domain at its partner's coordinates, len == rows of a parameter-free call. "
        "non-trivial = at least one sample call judged; distinct = (expression shape, k values, fired fault kinds, history length)")
ASSUMPTIONS = GEO_ASSUMPTIONS + [
    "excluded (loud, not silent): density+filter factor that returns 0 points as a product partner; "
    "appended samplers given external parameters (join refuses duplicate variables); "
    "len() asked after a call with external parameters is not judged (only before the first call and after parameter-free calls)"]


def budget(tier):
    return {"cases": 5000 if tier == "quick" else 150000, "wall": 600 if tier == "quick" else 3000,
            "shrink": 80, "det_legs": 6}


def gen_case(seed, tier="quick"):
    if rnd(seed, "engine").random() < 0.5:
        return geo_cases.gen_case(ID, seed)
    return sampler_cases.gen_c02(seed)


def run_case(case):
    if case.get("engine") == "samplersim":
        return samplersim.run_c02(case)
    rec = geosim.run_case(case, props=(ID,))
    geo_common.finish(rec, case, judged_key="count_checked")
    return rec


def shrink(case):
    if case.get("engine") != "samplersim":
        yield from geo_common.shrink(case)
        return
    import copy
    if case.get("fault"):
        yield dict(case, fault=None)
    h = case["history"]
    for i in range(len(h)):
        if len(h) > 1:
            yield dict(case, history=h[:i] + h[i + 1:])
    for i, op in enumerate(h):
        if op.get("prows") and len(op["prows"]) > 1:
            hh = copy.deepcopy(h)
            hh[i]["prows"] = op["prows"][:1]
            yield dict(case, history=hh)
    t = case["samp"]
    for c in ("a", "b"):
        if c in t and isinstance(t[c], dict):
            yield dict(case, samp=t[c])
