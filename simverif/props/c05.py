"""C05 -- membership tests agree with the denoted set (partial claim, DESIGN.md section 6)"""
from . import geo_cases
from .. import geosim
from .geo_common import *  # noqa

ID = "C05"
LEVEL = "exploration"
PROBES = ('contains_judged', 'own_judged', 'probe_judged', 'check_in_b')
RULE = ("geometry cases as in C01 (fault plans included); judged: (i) every _contains answer the library computed *during* simulated sampling, on every node of the expression (monitor), against the float64 margin for |margin| > 1e-3; (ii) the library's own samples (interior samples with margin > 1e-3, all own boundary samples) must be accepted by its own membership test; (iii) ~400 reference probe points per case in the enlarged box, each row with its own parameter row, plus structured probes on the extension of polygon edges for boundary predicates; answer must have one truth value per row. non-trivial = at least one answer judged; distinct = (feature cell, fired fault kinds)")
ASSUMPTIONS = GEO_ASSUMPTIONS + ['(iii) is plain input generation riding on the simulation and is labelled as such', "own boundary samples of translated/rotated boundaries are not judged (float32 round trip through the isometry vs. the library's isclose tolerance: conditioning)", 'behaviour within 1e-3 of the boundary is not decided']


def budget(tier):
    return {"cases": 5000 if tier == "quick" else 150000, "wall": 600 if tier == "quick" else 3000,
            "shrink": 80, "det_legs": 6}


def gen_case(seed, tier="quick"):
    return geo_cases.gen_case(ID, seed)


def run_case(case):
    rec = geosim.run_case(case, props=(ID,))
    finish(rec, case, judged_key='probe_judged')
    return rec
