"""C11 -- samplers follow their named laws: uniform, even grid, Gaussian, LHS."""
import numpy as np

from ..core.seed import H, rnd
from ..ref import geometry as G
from .. import gen_geo as GG, lawsim
from . import geo_cases
from .geo_common import COMPONENTS, GEO_ASSUMPTIONS

ID = "C11"
LEVEL = "exploration"
PROBES = ("tests",)
RULE = ("fault-free draw streams only (an adversarial draw is by construction not uniform). Cases: domain expressions of the C01 "
        "generator (primitives, boundaries, Boolean combinations, transforms, dependent products) judged at ONE parameter row -- alone, or (uniform law, n-mode, half of the parameter-dependent cases and a dedicated cell of unions whose mixture weight depends on the parameter) as one block of a call with 2-3 parameter rows --, law in "
        "{uniform (n- and density mode), Gaussian, LHS on boxes, grid}. uniform/Gaussian: M = 6e4 (quick) / 6e5 (thorough) library "
        "points against 10 M points of the independent reference sampler (rejection through the float64 margin; arclength-weighted "
        "leaf boundaries restricted by the margin for boundaries; truncated normal draws for Gaussian) on a G^d partition (G = 24/6/4 "
        "for d = 1/2/3), cells with expectation < 20 merged: chi-square homogeneity AND largest standardised cell residual with "
        "Bonferroni factor, each at alpha = 1e-9. LHS: every one of the n slabs of every axis holds exactly one point (exact). grid: "
        "largest deviation of a coarse 3^d cell share from the measure share <= 1.6/sqrt(n) + 2/n (calibrated on the current tree, "
        "then doubled; a bound on unevenness, not a law test). Composites draw >= 2000 points per call (O(1/n) small-sample bias of "
        "mixtures is not claimed by the library). non-trivial = >= 1 test evaluated; distinct = (law, kinds, mode, n)")
ASSUMPTIONS = GEO_ASSUMPTIONS + ["power: quick catches gross law errors (wrong transform, mixture weight, side bias >~ 10 %), thorough density tilts of ~3 % (DESIGN.md section 5)",
                                 "the probability that a correct tree raises an alarm is <= 2e-9 per case for ANY VERIF_SEED"]


def budget(tier):
    return {"cases": 400 if tier == "quick" else 4000, "wall": 900 if tier == "quick" else 3000, "shrink": 12, "det_legs": 3}


def gen_case(seed, tier="quick"):
    r = rnd(seed, "gen")
    rng = np.random.default_rng(H(seed, "ref") % (2 ** 32))
    M = 60000 if tier == "quick" else 600000
    law = r.choice(("uniform", "uniform", "uniform", "uniform", "gauss", "lhs", "grid"))
    case = {"format": 1, "property": ID, "engine": "lawsim", "seed": seed, "rng": H(seed, "rng"), "law": law, "fault": None}
    if law == "lhs":
        dep = r.random() < 0.5          # a box that depends on a parameter, several parameter rows
        if r.random() < 0.4:
            dom = GG.gen_iv(r, "x", "t" if dep else None, 0.9)
        else:
            w, h = r.uniform(0.5, 3), r.uniform(0.5, 3)
            ox, oy = GG.q(r.uniform(-3, 2)), GG.q(r.uniform(-3, 2))
            if dep:
                b1, b2 = GG.q(r.uniform(0.3, 1.5), 16.0), GG.q(r.uniform(-0.5, 1.0), 16.0)
                dom = {"k": "par", "var": "x", "o": [ox, oy], "c1": [["aff", GG.q(ox + w), b1, "t"], oy],
                       "c2": [ox, ["aff", GG.q(oy + h), b2, "t"]]}
            else:
                dom = {"k": "par", "var": "x", "o": [ox, oy], "c1": [GG.q(ox + w), oy], "c2": [ox, GG.q(oy + h)]}
        dep = bool(G.free_vars(dom))
        k = r.choice((1, 2, 3)) if dep else 0
        case.update(dom=dom, pspace=[["t", 1]] if dep else [], prow=[], prows=[[GG.q(r.uniform(0, 1))] for _ in range(k)],
                    n=r.choice((1, 2, 5, 16, 100, 1000)), reps=5)
        return case
    if law == "grid":
        c = r.random()
        dom = GG.gen_iv(r, "x") if c < 0.2 else (GG.gen_sph(r, "x") if c < 0.3 else GG.gen_prim2(r, "x"))
        case.update(dom=dom, pspace=[], prow=[], n=r.choice((200, 500, 1000, 4000)))
        rb = rnd(seed, "grid-bool-boundary")
        if rb.random() < 0.3:
            # grids on the boundary of a Boolean combination of two primitives (partly overlapping, asymmetric pieces)
            bd = None
            for _ in range(30):
                bd = GG.gen_bool(rb, rng, GG.gen_prim2(rb, "x"), [], "x")
                if bd is not None:
                    break
            if bd is not None:
                case.update(dom={"k": "bnd", "d": bd}, n=rb.choice((200, 500, 1000)), c=0.8)
                return case
        rg = rnd(seed, "grid-rows")
        if G.space(dom)[0][1] == 2 and rg.random() < 0.4:
            # a fixed shape moved by a parameter-dependent translation / rotation, gridded for 2-3 rows in ONE call
            if rg.random() < 0.5:
                dom = {"k": "transl", "d": dom, "v": [["aff", GG.q(rg.uniform(-1, 1)), GG.q(rg.uniform(2, 9)), "t"], GG.q(rg.uniform(-1, 1))]}
            else:
                dom = {"k": "rot", "d": dom, "ang": ["aff", GG.q(rg.uniform(-3, 3)), GG.q(rg.uniform(0.5, 2.5)), "t"],
                       "around": [GG.q(rg.uniform(-1, 1)), GG.q(rg.uniform(-1, 1))]}
            k = rg.choice((2, 3))
            rows = [[GG.q(v)] for v in rg.sample([rg.uniform(0, 0.2), rg.uniform(0.4, 0.6), rg.uniform(0.8, 1.0)], k)]
            j = rg.randrange(k)
            case.update(dom=dom, pspace=[["t", 1]], prow=rows[j], prows_extra=rows[:j] + rows[j + 1:], prow_index=j,
                        n=rg.choice((200, 500, 1000)))
        return case
    r4 = rnd(seed, "union-rows")
    if law == "uniform" and r4.random() < 0.15:
        # dedicated cell: a union whose mixture weight |A(t)|/|A(t)+B| differs between the parameter rows
        # of one call; the operands are far apart, with or without the disjoint flag
        rad = GG.q(r4.uniform(0.4, 1.0))
        A = {"k": "circ", "var": "x", "c": [GG.q(r4.uniform(-2, 2)), GG.q(r4.uniform(-2, 2))],
             "r": ["aff", rad, GG.q(r4.uniform(1.0, 3.0)), "t"]} if r4.random() < 0.6 else \
            GG.gen_par(r4, "x", "t", 1.0, tri=r4.random() < 0.3)
        Bn = {"k": "circ", "var": "x", "c": [GG.q(r4.uniform(15, 20)), GG.q(r4.uniform(15, 20))], "r": GG.q(r4.uniform(0.5, 1.5))} \
            if r4.random() < 0.5 else {"k": "par", "var": "x", "o": [15.0, 15.0], "c1": [GG.q(r4.uniform(16, 18)), 15.0],
                                       "c2": [15.0, GG.q(r4.uniform(16, 18))]}
        a, b = (A, Bn) if r4.random() < 0.5 else (Bn, A)
        dom = {"k": "union", "a": a, "b": b, "disjoint": r4.random() < 0.5}
        k = r4.choice((2, 3))
        rows = [[GG.q(v)] for v in r4.sample([r4.uniform(0, 0.2), r4.uniform(0.4, 0.6), r4.uniform(0.8, 1.0)], k)]
        j = r4.randrange(k)
        case.update(dom=dom, pspace=[["t", 1]], prow=rows[j], prows_extra=rows[:j] + rows[j + 1:], prow_index=j,
                    M=M, n=r4.choice((2000, 5000)))
        return case
    if law == "uniform" and 0.15 <= r4.random() < 0.25:
        # dedicated cell: dependent product whose second factor has two variables, the first factor depending on
        # one of them only (the acceptance step must still weigh by the measure of A(b))
        A = {"k": "circ", "var": "x", "c": [GG.q(r4.uniform(-2, 2)), GG.q(r4.uniform(-2, 2))],
             "r": ["aff", GG.q(r4.uniform(0.1, 0.5)), GG.q(r4.uniform(0.8, 2.0)), "t"]} if r4.random() < 0.6 else \
            {"k": "iv", "var": "x", "a": GG.q(r4.uniform(-2, 0)), "b": ["aff", GG.q(r4.uniform(0.2, 0.6)), GG.q(r4.uniform(1.0, 3.0)), "t"]}
        It = {"k": "iv", "var": "t", "a": 0.0, "b": 1.0}
        Is = {"k": "iv", "var": "s", "a": GG.q(r4.uniform(-1, 0)), "b": GG.q(r4.uniform(0.5, 2.0))}
        Bn = {"k": "prod", "a": It, "b": Is} if r4.random() < 0.5 else {"k": "prod", "a": Is, "b": It}
        case.update(dom={"k": "prod", "a": A, "b": Bn}, pspace=[], prow=[], M=M, n=r4.choice((2000, 5000)))
        return case
    for _ in range(50):
        dom, pspace = geo_cases.gen_domain(r, rng, max_depth=2)
        if _law_defined(dom):
            break
    else:
        return None
    if law == "gauss":
        while G.is_boundary(dom) or dom["k"] == "prod" or not _law_defined(dom):
            dom, pspace = geo_cases.gen_domain(r, rng, want_boundary=False, allow_prod=False, max_depth=2)
    prow = [GG.q(r.uniform(0, 1)) for _ in pspace]
    composite = any(k in ("union", "cut", "inter", "prod") for k in G.kinds(dom))
    case.update(dom=dom, pspace=pspace, prow=prow, M=M)
    if law == "gauss":
        row = {v: [prow[i]] for i, (v, _) in enumerate(pspace)}
        pts = G.uniform_sample(dom, row, 50, rng)
        v = G.space(dom)[0][0]
        case.update(mean=[GG.q(float(m)) for m in pts[v][r.randrange(50)]], std=r.choice((0.3, 0.5, 1.0)), n=2000)
        return case
    case["n"] = r.choice((2000, 5000, 20000)) if composite else r.choice((1, 7, 50, 2000, 20000))
    if case["n"] < 50:
        case["M"] = min(M, 20000)
    if not composite and dom["k"] != "prod" and r.random() < 0.25:
        case["mode"] = "d"
        case["d"] = 2000.0
    elif pspace and "prod" not in G.kinds(dom):
        r2 = rnd(seed, "rows")
        if r2.random() < 0.5:
            # the law holds for every parameter row of a batch: judge one block of a call with 2-3 rows
            k = r2.choice((2, 3))
            case["prows_extra"] = [[GG.q(r2.uniform(0, 1)) for _ in pspace] for _ in range(k - 1)]
            case["prow_index"] = r2.randrange(k)
    return case


def _law_defined(node):
    """Excluded where the library only promises a documented *estimate* (it warns and asks for
    set_volume): unions / Boolean boundaries whose operands have no exact measure (mixture weights
    come from the estimate), boundaries of products, single interval ends (a one-point law)."""
    k = node["k"]
    one = {"_": np.zeros((1, 1))}
    if k in ("bleft", "bright"):
        return False
    if k == "prod" and G.is_boundary(node):
        return False
    if k == "prod" and (G.free_vars(node["a"]) & {v for v, _ in G.space(node["b"])}) and not _exact(node["a"]):
        # the acceptance of a dependent product weighs by volume(first factor): an estimate here
        return False
    if k == "union":
        for c in (node["a"], node["b"]):
            if not _exact(c):
                return False
    if k == "bnd" and node["d"]["k"] in ("union", "cut", "inter"):
        for c in (node["d"]["a"], node["d"]["b"]):
            if c["k"] in ("union", "cut", "inter") or not _law_defined(c):
                return False
            if c["k"] in ("transl", "rot") and any(x in ("union", "cut", "inter") for x in G.kinds(c)):
                return False
    return all(_law_defined(c) for c in G.children(node))


def _exact(node):
    k = node["k"]
    if k in ("iv", "circ", "par", "tri", "sph", "poly"):
        return True
    if k in ("transl", "rot"):
        return _exact(node["d"])
    if k == "union":
        return bool(node.get("disjoint")) and _exact(node["a"]) and _exact(node["b"])
    if k == "cut":
        return bool(node.get("contained")) and _exact(node["a"]) and _exact(node["b"])
    return False


def run_case(case):
    return lawsim.run_c11(case)


def shrink(case):
    dom = case["dom"]
    if case.get("prows_extra"):
        yield {k: v for k, v in case.items() if k not in ("prows_extra", "prow_index")}
    from .geo_common import _sub_domains
    for cand in _sub_domains(dom):
        if G.free_vars(cand) <= {p[0] for p in case.get("pspace") or []} and G.is_boundary(cand) == G.is_boundary(dom):
            yield dict(case, dom=cand)
