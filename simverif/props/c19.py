"""C19 -- see RULE."""
from . import train_cases
from .. import trainsim

ID = "C19"
LEVEL = "fault_enumeration"
PROBES = ("crashes", "resumes_compared", "weight_files")
RULE = ("case = deterministic-sampling training configuration (as C07, static grids / single-batch data) x "
        "TrainerStateCheckpoint(check_interval c in {1,2,3}) x WeightSaveCallback(check_interval w, save_initial, save_final) "
        "x N in [2,8|12]. For 70 % of the configurations EVERY single crash point is enumerated: for each step k < N and each "
        "hook in {before on_train_batch_start, before the optimizer step, on_train_batch_end before the checkpoint callback, "
        "after it} a simulator callback raises SimCrash; only the files survive; everything is rebuilt from scratch with a "
        "different weight-init seed and trainer.fit(ckpt_path=newest file) runs to N. The rest are multi-crash schedules "
        "(crash, resume, crash again, ...). Oracle: final learnable state, optimizer state and scheduler step count bitwise "
        "equal to the uninterrupted run; the surviving checkpoint is the one of the last completed interval; every weight "
        "file loads strict=True into a freshly built model, init == before training, final == after, min_loss == state at the "
        "start of one of the checked batches. non-trivial = >= 1 resume compared or weight file judged; distinct = "
        "(condition kinds, optimizer, scheduler, c, w, N, number of schedules)")
ASSUMPTIONS = ["a crash is never injected inside a file write (torn files are outside what C19 states)",
               "sampling is deterministic (static grids, single-batch data), as the property requires",
               "restarts happen in the same interpreter from freshly built objects (fresh-interpreter restarts: see thorough pre-phase)"]
COMPONENTS = {"real": ["torchphysics Solver/callbacks (TrainerStateCheckpoint, WeightSaveCallback)", "pytorch_lightning checkpoint save/restore", "torch.save/torch.load on tmpfs"],
              "owned_by_simulator": ["crash points (hook x step)", "restart schedule", "weight initialisation seed at restart", "private directory"],
              "stubbed_or_disabled": ["logger", "GPU", "torn/partial writes"]}


def budget(tier):
    return {"cases": 64 if tier == "quick" else 3000, "wall": 1200 if tier == "quick" else 3400,
            "shrink": 10, "det_legs": 2}


def gen_case(seed, tier="quick"):
    return train_cases.gen_c19(seed, tier)


def run_case(case):
    # hermetic: every case starts from the same process image (see core/hermetic.py)
    from ..core.hermetic import hermetic
    return hermetic(trainsim.run_c19)(case)


def shrink(case):
    # one crash schedule at a time, then shorter schedules
    if len(case["crashes"]) > 1:
        for s in case["crashes"]:
            yield dict(case, crashes=[s])
    elif case["crashes"] and len(case["crashes"][0]) > 1:
        s = case["crashes"][0]
        for i in range(len(s)):
            yield dict(case, crashes=[s[:i] + s[i + 1:]])
