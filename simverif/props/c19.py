"""C19 -- see RULE."""
from . import train_cases
from .. import trainsim

ID = "C19"
LEVEL = "fault_enumeration"
PROBES = ("crashes", "resumes_compared", "weight_files")
RULE = ("case = deterministic-sampling training configuration (as C07, static grids / single-batch data) x "
        "TrainerStateCheckpoint(check_interval c in {1,2,3}) x WeightSaveCallback(check_interval w, save_initial, save_final) "
        "x N in [2,8|12]. For 70 % of the configurations EVERY single crash point is enumerated: for each step k < N and each "
        "hook in {before on_train_batch_start, before the optimizer step, on_train_batch_end before the checkpoint callback, "
        "after it} a simulator callback raises SimCrash; only the files survive; everything is rebuilt from scratch with a "
        "different weight-init seed and trainer.fit(ckpt_path=newest file) runs to N. The rest are multi-crash schedules "
        "(crash, resume, crash again, ...). Oracle: final learnable state, optimizer state and scheduler step count bitwise "
        "equal to the uninterrupted run; the surviving checkpoint is the one of the last completed interval; every weight "
        "file loads strict=True into a freshly built model, init == before training, final == after, min_loss == state at the "
        "start of one of the checked batches. non-trivial = >= 1 resume compared or weight file judged; distinct = "
        "(condition kinds, optimizer, scheduler, c, w, N, number of schedules)")
ASSUMPTIONS = ["a crash is never injected inside a file write (torn files are outside what C19 states)",
               "sampling is deterministic (static grids, single-batch data), as the property requires",
               "the enumerated crash points restart in the same interpreter from freshly built objects; in addition 6 (quick) / 60 (thorough) legs kill a child interpreter with os._exit at the crash point and resume in a new interpreter"]
COMPONENTS = {"real": ["torchphysics Solver/callbacks (TrainerStateCheckpoint, WeightSaveCallback)", "pytorch_lightning checkpoint save/restore", "torch.save/torch.load on tmpfs"],
              "owned_by_simulator": ["crash points (hook x step)", "restart schedule", "weight initialisation seed at restart", "private directory"],
              "stubbed_or_disabled": ["logger", "GPU", "torn/partial writes"]}


def budget(tier):
    return {"cases": 64 if tier == "quick" else 800, "wall": 1200 if tier == "quick" else 3000,
            "shrink": 10, "det_legs": 2}


def gen_case(seed, tier="quick"):
    return train_cases.gen_c19(seed, tier)


def run_case(case):
    if case.get("fresh_leg"):
        return _run_fresh(case)
    # hermetic: every case starts from the same process image (see core/hermetic.py)
    from ..core.hermetic import hermetic
    return hermetic(trainsim.run_c19)(case)


def _run_fresh(case):
    """A replayable fresh-interpreter leg: case['fresh_leg'] = [k, hook]."""
    from ..geosim import viol
    k, hook = case["fresh_leg"]
    base = {kk: v for kk, v in case.items() if kk not in ("fresh_leg", "expect", "minimised_from")}
    res, cmpd = _fresh_leg((base, k, hook))
    out = [viol("C19", "resume-fresh-interpreter", what.split(":")[0], "", crash=[k, hook], what=what[:200])
           for prop, what in res if prop == "C19"]
    rec = {"violations": out, "stats": {"resumes_compared": cmpd}, "steps": 0, "rows": None,
           "features": {"cell": "fresh-interpreter", "faulty": True},
           "sim": {"fired": {"crash:" + hook: 1}, "digest": None, "draw_calls": 0, "ops": 0, "site_calls": {}},
           "digest_extra": [len(out), cmpd], "nontrivial": cmpd > 0, "key": "fresh|%s|%s" % (k, hook), "outcome": [w for _, w in res]}
    return rec


def shrink(case):
    # one crash schedule at a time, then shorter schedules
    if len(case["crashes"]) > 1:
        for s in case["crashes"]:
            yield dict(case, crashes=[s])
    elif case["crashes"] and len(case["crashes"][0]) > 1:
        s = case["crashes"][0]
        for i in range(len(s)):
            yield dict(case, crashes=[s[:i] + s[i + 1:]])


def _fresh_leg(args):
    """One configuration: uninterrupted run, real process death at (k, hook), restart, all in fresh interpreters."""
    import json, os, shutil, subprocess, sys, tempfile
    import torch
    case, k, hook = args
    from ..core.runner import VERIF
    root = tempfile.mkdtemp(prefix="simverif_c19f_", dir="/dev/shm" if os.path.isdir("/dev/shm") else None)
    out = []
    try:
        cp = os.path.join(root, "case.json")
        json.dump(case, open(cp, "w"))
        env = dict(os.environ, PYTHONHASHSEED="0")
        py = [sys.executable, "-W", "ignore", "-m", "simverif.c19child"]
        dfull, dcr = os.path.join(root, "full"), os.path.join(root, "crash")
        os.makedirs(dfull)
        os.makedirs(dcr)
        p0 = subprocess.run(py + ["full", cp, dfull], cwd=VERIF, env=env, capture_output=True, text=True, timeout=600)
        p1 = subprocess.run(py + ["crash", cp, dcr, str(k), hook], cwd=VERIF, env=env, capture_output=True, text=True, timeout=600)
        if p0.returncode != 0:
            return [("HARNESS", "uninterrupted child failed: " + p0.stderr[-300:])], 0
        if p1.returncode != 17:
            return [("skip", "crash point not reached (exit %d)" % p1.returncode)], 0
        if not os.path.exists(os.path.join(dcr, "state.ckpt")):
            last_done = k if hook == "batch_end_after_ckpt" else k - 1
            if any(j % case["ckpt_interval"] == 0 for j in range(0, last_done + 1)):
                return [("C19", "no-checkpoint-file-after-interval")], 1
            return [("skip", "no checkpoint yet")], 0
        p2 = subprocess.run(py + ["resume", cp, dcr, str(case["spec"]["init"] + 99)], cwd=VERIF, env=env,
                            capture_output=True, text=True, timeout=600)
        if p2.returncode != 0:
            return [("C19", "resume-in-fresh-interpreter-fails: " + p2.stderr[-300:])], 1
        a = torch.load(os.path.join(dfull, "final_full.pt"), weights_only=False)
        b = torch.load(os.path.join(dcr, "final_resume.pt"), weights_only=False)
        from ..trainsim import same, opt_states_equal
        for name, x, y in zip(a["names"], a["final"], b["final"]):
            if not same(x, y):
                out.append(("C19", "learnable-state-differs-from-uninterrupted-run (fresh interpreters): " + name))
                break
        else:
            if not opt_states_equal(a["opt"], b["opt"]):
                out.append(("C19", "optimizer-state-differs-from-uninterrupted-run (fresh interpreters)"))
            elif a["last_epoch"] != b["last_epoch"]:
                out.append(("C19", "scheduler-state-differs (fresh interpreters)"))
        return out, 1
    finally:
        shutil.rmtree(root, ignore_errors=True)


def pre(tier, base):
    """Fresh-interpreter legs: the process really dies (os._exit) and a new interpreter resumes from the files."""
    import concurrent.futures as cf
    from ..core.seed import H, rnd
    from ..geosim import viol
    from ..trainsim import HOOKS
    n = 6 if tier == "quick" else 60
    jobs = []
    for i in range(n):
        seed = H(base, ID, "fresh", i)
        case = train_cases.gen_c19(seed, tier)
        r = rnd(seed, "crashpoint")
        N = case["spec"]["N"]
        k = r.randrange(1, N) if N > 1 else 0
        jobs.append((case, k, r.choice(HOOKS)))
    violations, compared, samples = [], 0, []
    with cf.ThreadPoolExecutor(max_workers=8) as ex:
        for (case, k, hook), (res, cmpd) in zip(jobs, ex.map(_fresh_leg, jobs)):
            compared += cmpd
            for prop, what in res:
                if prop == "C19":
                    c2 = dict(case, crashes=[[[k, hook]]], fresh_leg=[k, hook])
                    violations.append((viol("C19", "resume-fresh-interpreter", what.split(":")[0], "", crash=[k, hook], what=what[:200]), c2))
                elif prop == "HARNESS":
                    print("HARNESS-ERROR: " + what)
            samples.append({"fresh_interpreter_leg": {"N": case["spec"]["N"], "crash": [k, hook], "ckpt_interval": case["ckpt_interval"],
                                                      "result": [w for _, w in res] or ["bitwise equal"]}})
    return {"violations": violations, "evaluations": len(jobs), "distinct_nontrivial": compared,
            "samples": samples[:2], "fresh_interpreter_legs": len(jobs), "fresh_interpreter_resumes_compared": compared}
