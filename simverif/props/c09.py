"""C09 -- DeepONet output is the branch-trunk inner product; fast trunk path is equivalent."""
from ..core.seed import H, rnd
from .. import deeponetsim

ID = "C09"
LEVEL = "exploration"
PROBES = ("forwards", "twin_checks")
RULE = ("DeepONets over generated architectures (FC trunk with/without Sequential(NormalizationLayer, .), FC and Conv1D branches, "
        "trunk input dimension 1-2, function output dimension 1-2, output dimension 1-3; half of the cases with per-layer activation lists (tanh/sigmoid/softplus/silu) and xavier-gain lists over 1-3 hidden layers) and a *history* of operations: "
        "fix_branch_input(kind) with kind in {callable, 2D tensor, 3D tensor, Points, FunctionSet, FunctionSetCollection = sum of 2-4 function sets of unequal sizes}, "
        "forward(trunk batch) with shared (N,d) and per-function (F,N,d) layouts, forward(trunk, branch_inputs=...); 30 % of the cases end with training-path blocks: steps of 2-4 _forward_branch(function set, step number or None) calls on the one network over 2-3 persistent function sets that may repeat non-adjacently within a step, each followed by a forward without branch inputs. After every "
        "forward: out[i,j,c] == sum_m B[i,c,m] T[j,c,m] with B computed by applying the branch layers ourselves to our own "
        "discretisation of the MOST RECENTLY fixed function(s) and T from the plain twin; invariance under permuting the trunk "
        "batch; and R-twin (same weights, trunk_input_copied=False): equal outputs, first and second input derivatives "
        "(create_graph) and parameter gradients of a loss built from the second derivatives. No draws once samplers are static "
        "grids: no fault kind applies (stated). non-trivial = >= 1 forward judged; distinct = architecture cell x operation sequence")
ASSUMPTIONS = ["per-function trunk layouts are given as copies of one batch (what the fast path documents and the conditions do)",
               "derivatives and parameter gradients are compared element-wise in both layouts (in the per-function layout the derivative w.r.t. copy i is function i's)"]
COMPONENTS = {"real": ["torchphysics DeepONet, FCBranchNet, ConvBranchNet1D, FCTrunkNet, TrunkLinear (custom autograd function), CustomFunctionSet, FunctionSetCollection"],
              "owned_by_simulator": ["order of fix/forward operations", "weight initialisation seed"], "stubbed_or_disabled": []}


def budget(tier):
    return {"cases": 1500 if tier == "quick" else 60000, "wall": 900 if tier == "quick" else 3000, "shrink": 40, "det_legs": 4}


def _spec(r):
    return {"a": r.choice((0.5, 1.0, 2.0, -1.5)), "b": r.choice((1.0, 2.0, 3.0)), "c": r.choice((0.0, 0.25, -0.5))}


def gen_case(seed, tier="quick"):
    r = rnd(seed, "gen")
    case = {"format": 1, "property": ID, "engine": "deeponetsim", "seed": seed, "rng": H(seed, "rng"),
            "init": H(seed, "init") % (2 ** 31), "trunk_dim": r.choice((1, 1, 2)), "e": r.choice((1, 1, 2)),
            "u": r.choice((1, 1, 2, 3)), "D": r.choice((3, 5, 8)), "m": r.choice((2, 4, 5)),
            "branch": r.choice(("fc", "fc", "conv")), "bhidden": r.choice(([4], [5, 3])), "thidden": r.choice(([4], [4, 4])),
            "norm_layer": r.random() < 0.3, "fault": None}
    ra = rnd(seed, "activations")
    if ra.random() < 0.5:
        # per-layer activation and gain lists (up to three hidden layers)
        case["thidden"] = ra.choice(([4], [4, 4], [3, 4, 3], [5, 3]))
        case["tacts"] = [ra.choice(("tanh", "sigmoid", "softplus", "silu")) for _ in case["thidden"]]
        if ra.random() < 0.5:
            case["tgains"] = [ra.choice((1.0, 5 / 3, 0.5)) for _ in case["thidden"]]
        if case["branch"] == "fc" and ra.random() < 0.6:
            case["bhidden"] = ra.choice(([4], [5, 3], [3, 3, 3]))
            case["bacts"] = [ra.choice(("tanh", "sigmoid", "softplus", "silu")) for _ in case["bhidden"]]
            if ra.random() < 0.5:
                case["bgains"] = [ra.choice((1.0, 5 / 3, 0.5)) for _ in case["bhidden"]]
    rt = rnd(seed, "trunk-vars")
    if rt.random() < 0.3:
        # trunk space of 2-3 named variables; the trunk points are handed over in a permuted variable order
        names = rt.choice((["y", "t"], ["t", "y"], ["y", "t", "z"]))
        case["tvars"] = [[v, 1] for v in names]
        case["trunk_dim"] = len(names)
        order = list(names)
        rt.shuffle(order)
        case["tin"] = order
        case["norm_layer"] = False
    hist = []
    for _ in range(r.randint(2, 8)):
        c = r.random()
        F = r.choice((1, 1, 2, 3, 5))
        how = r.choice(("callable", "tensor2d", "tensor3d", "points", "functionset", "collection"))
        specs = [_spec(r) for _ in range(F)]
        if how == "collection":
            # sums of 2..4 function sets of unequal sizes
            r2 = rnd(seed, "collection", len(hist))
            parts = r2.choice((2, 3, 3, 4))
            specs += [_spec(r2) for _ in range(r2.choice((0, 1, 2, 4)))]
        if c < 0.4:
            hist.append({"op": "fix", "how": how, "specs": specs})
            if how == "collection":
                hist[-1]["parts"] = parts
        else:
            op = {"op": "forward", "N": r.choice((1, 2, 5, 9)), "xseed": r.randrange(10 ** 6),
                  "layout": r.choice(("shared", "shared", "per_function"))}
            if r.random() < 0.25:
                op.update(with_branch=True, how=how, specs=specs)
                if how == "collection":
                    op["parts"] = parts
                if how in ("tensor2d", "tensor3d", "points") and rnd(seed, "reuse", len(hist)).random() < 0.5:
                    # the same tensor / Points object again, refilled in place in between
                    hist.append(op)
                    op = dict(op, reuse=True, scale=rnd(seed, "reuse-scale", len(hist)).choice((1.5, -0.5, 2.0)),
                              xseed=op["xseed"] + 1)
            hist.append(op)
    rt_ = rnd(seed, "train-path")
    if rt_.random() < 0.3:
        # training-path block: 2-3 persistent function sets, steps of 2-4 _forward_branch calls on the shared
        # network (sets may repeat non-adjacently within one step), each followed by a forward without branch inputs
        case["train_sets"] = [[_spec(rt_) for _ in range(rt_.choice((1, 2, 3)))] for _ in range(rt_.choice((2, 2, 3)))]
        it = rt_.choice((0, 0, 3))
        for _ in range(rt_.randint(1, 3)):
            step_it = None if rt_.random() < 0.15 else it
            for _ in range(rt_.randint(2, 4)):
                hist.append({"op": "train", "set": rt_.randrange(len(case["train_sets"])), "it": step_it})
                hist.append({"op": "forward", "N": rt_.choice((1, 2, 5)), "xseed": rt_.randrange(10 ** 6),
                             "layout": rt_.choice(("shared", "shared", "per_function"))})
            it += 1
    if not any(h["op"] == "fix" or h.get("with_branch") for h in hist[:1]):
        hist.insert(0, {"op": "fix", "how": "tensor3d", "specs": [_spec(r) for _ in range(2)]})
    case["history"] = hist
    return case


def run_case(case):
    return deeponetsim.run_c09(case)


def shrink(case):
    h = case["history"]
    for i in range(len(h) - 1, -1, -1):
        if len(h) > 1:
            yield dict(case, history=h[:i] + h[i + 1:])
    for key, small in (("u", 1), ("e", 1), ("trunk_dim", 1)):
        if case[key] != small:
            yield dict(case, **{key: small})
    if case.get("norm_layer"):
        yield dict(case, norm_layer=False)
