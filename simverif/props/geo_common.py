"""Shared pieces of the geometry-engine property modules."""
import copy

from ..ref import geometry as G

COMPONENTS = {
    "real": ["torchphysics (/repo/src)", "torch", "shapely", "trimesh"],
    "owned_by_simulator": ["torch.rand/rand_like/randperm/normal/randn draws", "trimesh generator",
                           "clock of DataSampler", "acceptance decisions of rejection loops (spurious rejects)",
                           "operation order"],
    "stubbed_or_disabled": ["GPU / device moves", "torch intra-op threads (1 thread)"],
}
GEO_ASSUMPTIONS = [
    "conditioning envelope of DESIGN.md section 5 (coordinates in [-4,4], sizes in [0.5,3], angles >= 25 deg); "
    "points closer than 1e-4 to the boundary are never judged outside",
    "the float64 reference model R-geo (simverif/ref/geometry.py) is correct; it shares no code with torchphysics",
    "fault transforms only produce values a correct uniform generator may return; spurious rejections only reject",
    "cells listed as excluded in DESIGN.md section 8 are not generated",
]


def finish(rec, case, judged_key):
    f = rec["features"]
    f["cell"] = "%s|%s|%s|k%s|%s%s" % (f["kinds"], f["entry"], f["mode"], f["k"],
                                        "n1" if f["n1"] else "", "|flt" if f["filter"] else "")
    judged = rec["stats"].get(judged_key, 0)
    rec["nontrivial"] = judged > 0
    rec["key"] = "%s|%s" % (f["cell"], "+".join(sorted(rec["sim"]["fired"])))
    rec["outcome"] = {"rows": rec.get("rows"), "judged": judged}


def shrink(case):
    """Candidate smaller cases (structural shrinking of the explicit case)."""
    def with_(**kw):
        c = copy.deepcopy(case)
        c.update(kw)
        return c
    # faults first
    if case.get("fault"):
        yield with_(fault=None)
        f = case["fault"]
        if f.get("reject"):
            g = copy.deepcopy(f)
            g["reject"] = {}
            yield with_(fault=g)
        if len(f.get("kinds", [])) > 1:
            for kd in f["kinds"]:
                g = copy.deepcopy(f)
                g["kinds"] = [kd]
                yield with_(fault=g)
    # fewer parameter rows
    rows = case.get("prows") or []
    if len(rows) > 1:
        yield with_(prows=rows[:1])
        yield with_(prows=rows[:len(rows) // 2])
    # smaller n
    e = case["entry"]
    if e.get("n") and e["n"] > 1:
        for n in sorted({1, 2, 3, e["n"] // 2}):
            if n < e["n"] and n >= 1:
                ee = dict(e, n=n)
                yield with_(entry=ee)
    if e.get("filter"):
        ee = dict(e)
        ee.pop("filter")
        yield with_(entry=ee)
    if e.get("calls", 1) > 1:
        yield with_(entry=dict(e, calls=1))
    # structural: replace a node by a child
    for cand in _sub_domains(case["dom"]):
        need = G.free_vars(cand)
        ps = [p for p in (case.get("pspace") or [])]
        if all(v in [p[0] for p in ps] for v in need):
            yield with_(dom=cand)
    # constants instead of functions
    if rows and G.free_vars(case["dom"]):
        vals = {p[0]: rows[0][i] for i, p in enumerate(case["pspace"])}
        yield with_(dom=G.subst(case["dom"], vals), prows=[], pspace=[])


def _sub_domains(node):
    k = node["k"]
    if k in ("union", "cut", "inter", "prod"):
        yield node["a"]
        yield node["b"]
        for c in _sub_domains(node["a"]):
            yield dict(node, a=c)
        for c in _sub_domains(node["b"]):
            yield dict(node, b=c)
    elif k in ("transl", "rot"):
        yield node["d"]
        for c in _sub_domains(node["d"]):
            yield dict(node, d=c)
    elif k == "bnd":
        for c in _sub_domains(node["d"]):
            yield {"k": "bnd", "d": c}
