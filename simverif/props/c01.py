"""C01 -- every sampled point lies in the domain it was sampled from; sampling terminates."""
from . import geo_cases
from .. import geosim
from .geo_common import *  # noqa

ID = "C01"
LEVEL = "exploration"
PROBES = ("check_in_b", "apply_filter", "gauss_inside", "lhs_inside", "edge0", "edge1", "half",
          "lattice", "tie", "const", "echo")
RULE = ("cases = (domain expression from the R-geo generator inside the conditioning envelope, parameter rows, "
        "entry point [Domain.sample_random_uniform|sample_grid, RandomUniform/Grid/Gaussian/LHS/Adaptive* sampler, "
        "n or density, optional filter; adaptive samplers get 1-3 rounds whose earlier rounds may be called with other parameter rows], SimRNG fault plan) derived from sha256(VERIF_SEED, 'C01', index); "
        "oracle: float64 reference margin/deviation of every returned row at its own parameter row <= 1e-4, "
        "finite, right space, call returns within the draw budget; a case is non-trivial when at least one row "
        "was judged; distinct = distinct (feature cell, kinds of faults that fired, rows judged>0) keys")
ASSUMPTIONS = GEO_ASSUMPTIONS


def budget(tier):
    return {"cases": 6000 if tier == "quick" else 200000, "wall": 600 if tier == "quick" else 3000,
            "shrink": 80, "det_legs": 6}


def gen_case(seed, tier="quick"):
    return geo_cases.gen_case(ID, seed)


def run_case(case):
    rec = geosim.run_case(case, props=("C01",))
    finish(rec, case, judged_key="rows_judged")
    return rec
