"""C17 -- partially evaluating a domain is the same as supplying the parameters."""
import numpy as np

from ..core.seed import H, rnd
from ..ref import geometry as G
from .. import gen_geo as GG, partialsim
from . import geo_cases
from .geo_common import COMPONENTS, GEO_ASSUMPTIONS

ID = "C17"
LEVEL = "exploration"
PROBES = ("steps_judged", "rows_judged")
RULE = ("parameter-dependent expressions of the C01 generator with 1-2 free variables (shape parameters, translations, rotation "
        "angles; primitives, boundaries, Boolean combinations, transforms) and a history of partial evaluations "
        "D_{j+1} = D_j(**subset_j) ((1,1) tensors, the form samplers hand parameters over; also branching off an earlier D_i), under SimRNG. After every "
        "step: necessary_variables == free variables of the substituted AST; membership on ~150 probe points (incl. structured "
        "edge-extension probes) agrees with the ORIGINAL domain evaluated at the fixed values and with the reference margin outside "
        "the 1e-3 band; volume and bounding box agree with the original at the fixed values (rtol 1e-5); n sampled points of D_j "
        "lie in the set denoted at the fixed values and are n; and a behavioural snapshot (needs, membership, volume) of every "
        "earlier D_i is unchanged. non-trivial = >= 1 step judged; distinct = (kinds, #variables, which variables per step, fired faults)")
ASSUMPTIONS = GEO_ASSUMPTIONS + ["bounding boxes of translated/rotated domains are compared by enclosure in C18, not here",
                                 "products whose own variables are fixed (F26 of DESIGN.md) and Interval.boundary_left/right (F25, pinned by a baseline test) are recorded findings"]


def budget(tier):
    return {"cases": 4000 if tier == "quick" else 120000, "wall": 600 if tier == "quick" else 3000, "shrink": 60, "det_legs": 6}


def gen_case(seed, tier="quick"):
    r = rnd(seed, "gen")
    rng = np.random.default_rng(H(seed, "ref") % (2 ** 32))
    for _ in range(20):
        dom, pspace = geo_cases.gen_domain(r, rng, allow_prod=False, p_param=1.0, max_depth=2)
        if pspace:
            break
    else:
        return None
    # a second free variable through an outer transform
    if r.random() < 0.5 and G.space(dom)[0][1] == 2 and not G.is_boundary(dom):
        if r.random() < 0.5:
            dom = {"k": "transl", "d": dom, "v": [["aff", GG.q(r.uniform(-1, 1)), GG.q(r.uniform(-1, 1), 16.0) or 0.5, "s"], GG.q(r.uniform(-1, 1))]}
        else:
            dom = {"k": "rot", "d": dom, "ang": ["aff", GG.q(r.uniform(-3, 3)), GG.q(r.uniform(0.25, 1.5), 16.0), "s"],
                   "around": [GG.q(r.uniform(-1, 1)), GG.q(r.uniform(-1, 1))]}
        pspace = pspace + [["s", 1]]
    if r.random() < 0.45:
        # one shape parameter depends on BOTH variables: fixing one of them leaves a partially
        # bound function (the deep-copy branch of UserFunction.partially_evaluate)
        done = [False]

        def both(node):
            for key in ("r", "a", "b"):
                E = node.get(key)
                if not done[0] and isinstance(E, list) and E[0] == "aff" and E[3] == "t":
                    node[key] = ["aff2", E[1], E[2], "t", GG.q(r.uniform(0.05, 0.2), 64.0), "s"]
                    if rnd(seed, "default-valued").random() < 0.4 and not any(
                            k_ in ("bleft", "bright") for k_ in G.kinds(dom)):      # (F25's cell has its own symptom)
                        # the second variable is declared WITH a python default in the shape function
                        node[key] = ["aff2d"] + node[key][1:] + [GG.q(rnd(seed, "default-value").uniform(0, 1))]
                    done[0] = True
            for key in ("c", "o", "c1", "c2", "v"):
                Es = node.get(key)
                if isinstance(Es, list):
                    for i, E in enumerate(Es):
                        if not done[0] and isinstance(E, list) and E[0] == "aff" and E[3] == "t" and key in ("c", "v"):
                            Es[i] = ["aff2", E[1], E[2], "t", GG.q(r.uniform(0.05, 0.3), 64.0), "s"]
                            done[0] = True
            for c in G.children(node):
                both(c)
        import copy as _copy
        dom = _copy.deepcopy(dom)
        both(dom)
        if done[0] and ["s", 1] not in pspace:
            pspace = pspace + [["s", 1]]
    rp = rnd(seed, "product")
    if rp.random() < 0.15 and not any(k_ in ("bleft", "bright") for k_ in G.kinds(dom)) \
            and sum(1 for k_ in G.kinds(dom) if k_ in ("union", "cut", "inter")) <= 1:
        # the parameter-dependent expression as a factor of a product with an interval of an own variable
        dom = {"k": "prod", "a": dom, "b": GG.gen_iv(rp, "y")}
    full = {v: GG.q(r.uniform(0, 1)) for v, _ in pspace}
    names = [v for v, _ in pspace]
    steps = []
    left = list(names)
    r.shuffle(left)
    while left:
        take = left[:r.randint(1, len(left))]
        left = left[len(take):]
        steps.append({"vals": {v: full[v] for v in take}, "as_tensor": True})
    has_default = '"aff2d"' in __import__("json").dumps(dom)
    if has_default:
        # a default-valued variable left open when the last REQUIRED one is fixed takes its default for good
        # (UserFunction evaluates at once): the histories fix it no later than t, so that "the original evaluated
        # at those values" is the comparison the property speaks about
        it = next(i for i, st in enumerate(steps) if "t" in st["vals"])
        js = next(i for i, st in enumerate(steps) if "s" in st["vals"])
        if js > it:
            steps[it]["vals"], steps[js]["vals"] = steps[js]["vals"], steps[it]["vals"]
    if r.random() < 0.3:
        # branch off the original again (repeated evaluation of the same object)
        v0 = "s" if has_default else names[0]
        steps.append({"vals": {v0: full[v0]}, "on": 0, "as_tensor": True})
    return {"format": 1, "property": ID, "engine": "partialsim", "seed": seed, "rng": H(seed, "rng"), "dom": dom,
            "pspace": pspace, "full": full, "steps": steps, "n": r.choice((1, 2, 7, 30)),
            "fault": geo_cases.gen_fault(r, seed, 0.4)}


def run_case(case):
    return partialsim.run_c17(case)


def shrink(case):
    if case.get("fault"):
        yield dict(case, fault=None)
    if len(case["steps"]) > 1:
        for i in range(len(case["steps"]) - 1, -1, -1):
            yield dict(case, steps=case["steps"][:i] + case["steps"][i + 1:])
    if case["n"] > 1:
        yield dict(case, n=1)
