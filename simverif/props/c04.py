"""C04 -- a condition's loss is reduce(error(residual)) on exactly its sampled points."""
from . import cond_cases
from .. import condsim

ID = "C04"
LEVEL = "exploration"
PROBES = ("evals_judged", "grads_judged")
RULE = ("a condition of kind PINN / Mean / SingleModule(custom error+reduce) / AdaptiveWeights / Periodic / IntegroPINN / Data with input spaces of "
        "1-2 variables whose model declares them in a different order than the sampler produces them, product samplers supplying the "
        "extra variable, samplers fresh / static / static with finite resample interval, 0-2 data functions with argument subsets in "
        "any order, optional learnable Parameter; then a history of 1-8 evaluations under SimRNG (value faults and spurious "
        "rejections in the samplers must not matter). Seams: recording proxy on the sampler, probe residual that stores its keyword "
        "arguments, closed-form Model. Oracle per evaluation: the probe got exactly its declared names; every coordinate argument "
        "equals the recorded sample's column block *for that name*; the output argument equals the closed form on the recorded rows; "
        "every data-function argument equals the user's function on the recorded rows of THIS evaluation; left/right sets of "
        "periodic conditions on their own side; autograd derivative of the output w.r.t. a named coordinate inside the probe equals "
        "the analytic one; the returned loss equals R-reduce of the residual the probe returned (mean of row-wise sum of squares / "
        "plain mean / user error+reduce / weighted by the adaptive layer / stated norm and root per batch or over the full data set). "
        "non-trivial = >= 1 evaluation judged; distinct = (kind, declared order, static mode, #data functions, parameter, #evals, fired faults)")
ASSUMPTIONS = ["HPM conditions are not generated; DeepONet conditions (PIDeepONetCondition / DeepONetSingleModuleCondition on a real small DeepONet, 12 % of the cases) are judged on the returned loss only: documented mean over functions and points of the squared residual summed over components, recomputed on a twin network with the hand-evaluated input functions fixed through fix_branch_input",
               "adaptive samplers inside conditions are excluded (F32/F33 of DESIGN.md: loud IndexError/AttributeError)"]
COMPONENTS = {"real": ["torchphysics conditions, samplers, UserFunction, Points, PointsDataLoader"],
              "owned_by_simulator": ["sampler draws (SimRNG)", "number of evaluations straddling the resample interval"],
              "stubbed_or_disabled": ["model = closed-form torchphysics Model (so arguments can be recomputed)"]}


def budget(tier):
    return {"cases": 4000 if tier == "quick" else 150000, "wall": 600 if tier == "quick" else 3000, "shrink": 50, "det_legs": 6}


def gen_case(seed, tier="quick"):
    from ..core.seed import rnd
    if rnd(seed, "engine").random() < 0.12:
        return cond_cases.gen_c04_don(seed)
    return cond_cases.gen_c04(seed)


def run_case(case):
    if case.get("engine") == "donsim":
        from .. import donsim
        return donsim.run_c04_don(case)
    return condsim.run_c04(case)


def shrink(case):
    import copy
    if case.get("engine") == "donsim":
        if case["evals"] > 1:
            yield dict(case, evals=1)
        if len(case["fsets"][0].get("ks") or []) > 1:
            yield dict(case, fsets=[dict(case["fsets"][0], ks=case["fsets"][0]["ks"][:1])])
        if case.get("udim", 1) > 1:
            yield dict(case, udim=1)
        return
    if case.get("fault"):
        yield dict(case, fault=None)
    if case["evals"] > 1:
        yield dict(case, evals=case["evals"] - 1)
    cs = case["cond"]
    if cs.get("data_fns") and len(cs["data_fns"]) > 1:
        for k in cs["data_fns"]:
            c2 = copy.deepcopy(cs)
            c2["data_fns"].pop(k)
            c2["resid_args"] = [a for a in c2["resid_args"] if not a.startswith(k)]
            yield dict(case, cond=c2)
    if cs.get("use_param"):
        c2 = copy.deepcopy(cs)
        c2["use_param"] = False
        c2["resid_args"] = [a for a in c2["resid_args"] if a != "k"]
        yield dict(case, cond=c2)
