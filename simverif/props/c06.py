"""C06 -- boundary normals are finite outward unit vectors"""
from . import geo_cases
from .. import geosim
from .geo_common import *  # noqa

ID = "C06"
LEVEL = "exploration"
PROBES = ('normals_judged', 'normals_corner_judged', 'edge0', 'edge1', 'lattice', 'half')
RULE = ("boundary expressions of primitives and of nested +,-,& of primitives (both vertex orientations, parameter batches), points from the library's own boundary samplers (random and grid) under SimRNG with corner-producing faults (edge0/edge1/lattice/half put draws exactly on corners and edge ends); oracle: normal finite, | |n|-1 | <= 1e-4, margin(p+h n) < 0 and margin(p-h n) > 0 with h = 2e-3 at points with a single boundary feature within 5h; at corners of one primitive the weak form (along leaves, against is more inside than along); junctions of Boolean boundaries are skipped. non-trivial = at least one normal judged; distinct = (feature cell, fired fault kinds)")
ASSUMPTIONS = GEO_ASSUMPTIONS + ['normals of translated/rotated domains and products do not exist in the library and are outside C06', 'points within 1e-2 of a junction of two boundary pieces of a Boolean expression are not judged (outwardness ambiguous)']


def budget(tier):
    return {"cases": 6000 if tier == "quick" else 200000, "wall": 600 if tier == "quick" else 3000,
            "shrink": 80, "det_legs": 6}


def gen_case(seed, tier="quick"):
    return geo_cases.gen_case(ID, seed)


def run_case(case):
    rec = geosim.run_case(case, props=(ID,))
    finish(rec, case, judged_key='normals_judged')
    return rec
