"""C06 -- thin module (to be enriched): geometry engine with this property's oracles."""
from . import geo_cases
from .. import geosim
from .geo_common import *  # noqa

ID = "C06"
LEVEL = "exploration"
RULE = "see DESIGN.md"
ASSUMPTIONS = GEO_ASSUMPTIONS


def budget(tier):
    return {"cases": 4000 if tier == "quick" else 100000, "wall": 600 if tier == "quick" else 3300,
            "shrink": 80, "det_legs": 6}


def gen_case(seed, tier="quick"):
    return geo_cases.gen_case(ID, seed)


def run_case(case):
    rec = geosim.run_case(case, props=(ID,))
    finish(rec, case, judged_key="rows_judged")
    return rec
