"""C13 -- user functions receive their arguments by name (degenerate use of the technique)."""
from ..core.seed import H, rnd
from .. import objsim

ID = "C13"
LEVEL = "exploration"
PROBES = ("ops_judged",)
RULE = ("Python functions with 0-6 positional-or-keyword parameters and any number of trailing defaults, each returning a tagged "
        "record of what it received; histories (<= 14 operations) of call(mapping superset in random key order), "
        "partially_evaluate(subset), set_default, remove_default, copy.deepcopy, re-wrap UserFunction(w), on any live holder, "
        "interleaved by the simulator; judged against R-holders (a dict of bound defaults + the pure function): arguments bound by "
        "name, defaults for absent optional names, AssertionError for a missing required name, partial evaluation returns the value "
        "iff all required names are bound else a holder equal to the model, and after call/partial/wrap/copy the observable state of "
        "every other holder, the user's function and user mappings are unchanged. No draws, no faults (DESIGN.md C13: honest scope). "
        "non-trivial = >= 1 operation judged; distinct = (signature cell, operation sequence)")
ASSUMPTIONS = ["keyword-only parameters and *args/**kwargs are outside the property's quantifier",
               "set_default through a re-wrap (which shares the dict by design) is not judged"]
COMPONENTS = {"real": ["torchphysics.utils.user_fun.UserFunction / DomainUserFunction"], "owned_by_simulator": ["operation order across holders"],
              "stubbed_or_disabled": []}


def budget(tier):
    return {"cases": 20000 if tier == "quick" else 600000, "wall": 600 if tier == "quick" else 3000, "shrink": 60, "det_legs": 6}


def gen_case(seed, tier="quick"):
    r = rnd(seed, "gen")
    rv = rnd(seed, "falsy")
    n = r.choice((0, 1, 2, 2, 3, 3, 4, 5, 6))
    args = r.sample(objsim.NAMES, n)
    nd = r.randint(0, n)
    hist = []
    for _ in range(r.randint(1, 14)):
        op = r.choice(("call", "call", "call", "partial", "partial", "partial", "rewrap", "deepcopy", "set_default", "remove_default"))
        pool = list(args) + r.sample(["x", "y", "z"], r.randint(0, 2))
        keys = r.sample(pool, r.randint(0, len(pool)))
        if op == "call" and r.random() < 0.6:
            keys = list(set(keys) | set(args[:n - nd]))
            r.shuffle(keys)
        mapping = {k: "val_%s_%d" % (k, r.randrange(1000)) for k in keys}
        for k in keys:
            if rv.random() < 0.08:
                mapping[k] = rv.choice((None, 0, False, ""))     # values a truthiness test confuses with "absent"
        hist.append({"op": op, "h": r.randrange(8), "mapping": mapping})
    dvals = {a: rv.choice((None, None, 0, False, "")) for a in args[len(args) - nd:] if rv.random() < 0.2} if nd else {}
    return {"format": 1, "property": ID, "engine": "objsim", "seed": seed, "rng": 0, "args": args, "n_defaults": nd, "dvals": dvals,
            "domain_variant": False, "history": hist, "fault": None}


def run_case(case):
    return objsim.run_c13(case)


def shrink(case):
    h = case["history"]
    for i in range(len(h) - 1, -1, -1):
        if len(h) > 1:
            yield dict(case, history=h[:i] + h[i + 1:])
    for i, op in enumerate(h):
        for k in list(op.get("mapping", {})):
            m = dict(op["mapping"])
            m.pop(k)
            hh = list(h)
            hh[i] = dict(op, mapping=m)
            yield dict(case, history=hh)
