"""C16 -- data loaders deliver every datum with intact input/target pairing."""
import math

from ..core.seed import H, rnd
from ..core import simrng
from .. import loadersim

ID = "C16"
LEVEL = "exploration"
PROBES = ("perm_identity", "perm_reverse", "perm_rotate", "perm_swap2", "aggregates")
RULE = ("configurations (PointsDataLoader: N in [1,40], batch in [1,45], 1-3 paired Points objects, shuffle, drop_last, norm/root of "
        "the full-data-set DataCondition; DeepONetDataLoader: both trunk layouts, N_branch,N_trunk in [1,12], batch sizes in "
        "[1,14] u {-1}, both shuffle flags) drawn from sha256(VERIF_SEED,'C16',i) with a bias towards gcd>1, equal sizes and "
        "batch > data; the shuffle permutation is a draw the simulator owns (fault kinds perm_identity/reverse/rotate/swap2). "
        "Every datum carries a unique tag. Oracle per batch: tags of inputs and targets agree row by row (DeepONet: "
        "output[i,j] tag == (branch i, trunk j)); batch sizes <= requested; over one pass every tag appears except an "
        "explicitly dropped tail; full-data-set loss == independent aggregate (max of batch maxima / mean of batch means, then root). "
        "non-trivial = >= 1 batch judged; distinct = configuration cell x fired permutation fault")
ASSUMPTIONS = ["num_workers = 0 (real worker processes would be an interleaving the simulator does not decide)",
               "the DeepONet full-data-set condition is exercised through the PointsDataLoader/DataCondition pair only"]
COMPONENTS = {"real": ["torchphysics PointsDataLoader/PointsDataset", "DeepONetDataLoader/DeepONetDataset(_Unique)", "DataCondition", "torch DataLoader"],
              "owned_by_simulator": ["torch.randperm (shuffle permutations)"], "stubbed_or_disabled": ["num_workers>0", "pin_memory"]}


def budget(tier):
    return {"cases": 6000 if tier == "quick" else 200000, "wall": 600 if tier == "quick" else 3000,
            "shrink": 60, "det_legs": 6}


def gen_case(seed, tier="quick"):
    r = rnd(seed, "gen")
    fault = None
    if r.random() < 0.5:
        fault = {"seed": H(seed, "fault"), "rate": 1.0, "kinds": [r.choice(simrng.PERM_KINDS)], "reject": {}, "only": None}
    if r.random() < 0.4:
        N = r.choice((1, 2, 3, 5, 8, 12, 16, 17, 30, 40))
        bs = r.choice((1, 2, 3, 4, 5, 8, N, N + 1, 45)) if r.random() < 0.7 else r.randint(1, 45)
        c = {"kind": "points", "N": N, "batch": bs, "n_objects": r.choice((1, 2, 2, 3)),
             "shuffle": r.random() < 0.5, "drop_last": r.random() < 0.4,
             "norm": r.choice((1, 2, 2, "inf")), "root": r.choice((1.0, 1.0, 2.0))}
    else:
        F, T = r.randint(1, 12), r.randint(1, 12)
        if r.random() < 0.3:
            T = F
        bb = r.choice((1, 2, 3, 4, 5, 14, -1, F, F + 1)) if r.random() < 0.8 else r.randint(1, 14)
        tb = r.choice((1, 2, 3, 4, 5, 14, -1, T, T + 1)) if r.random() < 0.8 else r.randint(1, 14)
        c = {"kind": "deeponet", "layout": r.choice(("shared", "unique")), "n_branch": F, "n_trunk": T,
             "branch_batch": bb, "trunk_batch": tb, "shuffle_branch": r.random() < 0.5, "shuffle_trunk": r.random() < 0.5}
    c.update({"format": 1, "property": ID, "engine": "loadersim", "seed": seed, "rng": H(seed, "rng"),
              "fault": fault})
    return c


def run_case(case):
    return loadersim.run_c16(case)


def shrink(case):
    if case.get("fault"):
        yield dict(case, fault=None)
    for key in ("N", "batch", "n_branch", "n_trunk", "branch_batch", "trunk_batch"):
        if key in case and isinstance(case[key], int) and case[key] > 1:
            for v in sorted({1, 2, case[key] - 1, case[key] // 2}):
                if 1 <= v < case[key]:
                    yield dict(case, **{key: v})
    for key in ("shuffle", "drop_last", "shuffle_branch", "shuffle_trunk"):
        if case.get(key):
            yield dict(case, **{key: False})
