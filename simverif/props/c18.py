"""C18 -- the bounding box encloses the domain (partial claim)"""
from . import geo_cases
from .. import geosim
from .geo_common import *  # noqa

ID = "C18"
LEVEL = "exploration"
PROBES = ('bbox_checked', 'bbox_tight_judged', 'normalization_judged')
RULE = ('geometry cases as in C01; judged: (i) every point produced by simulated sampling (that passed C01) lies in bounding_box(params) of its expression, per axis in space order, tol 1e-4, for the whole parameter batch; (ii) primitives at a single row: box equals the R-geo box (rtol 1e-5); (iii) NormalizationLayer built from the box maps the samples into [-1-1e-4, 1+1e-4]^d (parameter-free solids); LHS samplers are part of the entry mix (their proposals come from the box). non-trivial = box judged on >= 1 row')
ASSUMPTIONS = GEO_ASSUMPTIONS + ['dependent products without set_bounding_box use a documented 10-point estimate (the library warns): not judged']


def budget(tier):
    return {"cases": 5000 if tier == "quick" else 150000, "wall": 600 if tier == "quick" else 3000,
            "shrink": 80, "det_legs": 6}


def gen_case(seed, tier="quick"):
    return geo_cases.gen_case(ID, seed)


def run_case(case):
    rec = geosim.run_case(case, props=(ID,))
    finish(rec, case, judged_key='bbox_checked')
    return rec
