"""C07 -- see RULE."""
from . import train_cases
from .. import trainsim

ID = "C07"
LEVEL = "exploration"
PROBES = ("validations", "val_calls", "adaptive_checked", "preludes")
RULE = ("[worlds may also hold 1-3 physics-informed DeepONet conditions sharing ONE DeepONet: fixed or per-iteration redrawn function parameters, track_gradients on/off, a validation condition on a training function set] "
        "case = training configuration (1-4 conditions of kinds PINN/Mean/Data/AdaptiveWeights/ParameterCondition sharing or not "
        "sharing 1-2 FCN models incl. adaptive activations, optional inverse-problem Parameter, weights, optimizer in "
        "{SGD(+momentum,nesterov), Adam(+weight decay), AdamW, RMSprop, Adagrad}, scheduler in {none, StepLR, ExponentialLR, "
        "MultiStepLR} x scheduler_frequency, N in [1,12]) x *schedule* chosen by the simulator for Lightning "
        "(val_check_interval, num_sanity_val_steps, check_val_every_n_epoch, log_every_n_steps, 0-2 validation conditions) "
        "x SimRNG fault plan for the random/rejection/LHS samplers x an optional *prelude* (an earlier unrelated Solver fit in the same process with another optimizer/lr and library default arguments: state must not leak between Solver instances). World A = real Solver under a real pl.Trainer, world B = "
        "R-loop (plain loop over the learnable tensors found by our own attribute traversal of the condition objects). "
        "Oracle: after every step all learnable tensors agree (rtol 1e-4/atol 1e-6), learning rate and scheduler step count "
        "agree, the same tensors moved, both worlds consumed the same number of library draws, every training condition was "
        "evaluated exactly once per step with iteration = step index, learnable state is bitwise unchanged across every "
        "validation, adaptive point weights did not descend (optimizers without weight decay). "
        "non-trivial = >= 1 optimisation step compared; distinct = (condition kinds, optimizer, scheduler, #validation "
        "conditions, enabled trainer options, N, fired faults)")
ASSUMPTIONS = ["LBFGS, accumulate_grad_batches>1, gradient clipping and several optimizers are excluded (DESIGN.md C07)",
               "world B evaluates the real condition objects (their correctness is C04's subject)",
               "validation conditions use pre-drawn static samples so that their presence cannot shift the training draw stream"]
COMPONENTS = {"real": ["torchphysics Solver/conditions/samplers/models", "pytorch_lightning Trainer and loops", "torch optimizers/schedulers"],
              "owned_by_simulator": ["library draws (SimRNG)", "trainer options = validation interleaving", "weight initialisation seed"],
              "stubbed_or_disabled": ["logger", "progress bar", "GPU", "num_workers>0"]}


def budget(tier):
    return {"cases": 700 if tier == "quick" else 15000, "wall": 900 if tier == "quick" else 3000,
            "shrink": 25, "det_legs": 4}


def gen_case(seed, tier="quick"):
    return train_cases.gen_c07(seed)


def run_case(case):
    # hermetic: every case starts from the same process image (see core/hermetic.py)
    from ..core.hermetic import hermetic
    return hermetic(trainsim.run_c07)(case)


def shrink(case):
    import copy
    spec = case["spec"]
    def w(**kw):
        s = copy.deepcopy(spec)
        s.update(kw)
        return dict(case, spec=s)
    if case.get("fault"):
        yield dict(case, fault=None)
    if case.get("prelude"):
        yield dict(case, prelude=None)
    if spec.get("val"):
        yield w(val=[])
    if spec["N"] > 1:
        yield w(N=max(1, spec["N"] // 2))
        yield w(N=spec["N"] - 1)
    if len(spec["conds"]) > 1:
        for i in range(len(spec["conds"])):
            cs = spec["conds"][:i] + spec["conds"][i + 1:]
            if any("sampler" in c or c["kind"] in ("data", "pidon") for c in cs):
                yield w(conds=cs)
    if spec["opt"].get("sched"):
        o = dict(spec["opt"], sched=None)
        yield w(opt=o)
    if spec.get("trainer"):
        yield w(trainer={"sanity": 0})
