"""Generators of condition specs (C04, C14)."""
from ..core.seed import H, rnd


def gen_cond(r, idx=0, kinds=("pinn", "pinn", "mean", "single", "adaptw", "periodic", "data", "integro")):
    kind = r.choice(kinds)
    out_dim = r.choice((1, 1, 2))
    with_t = r.random() < 0.6 or kind in ("periodic", "integro")
    order = r.choice((["x", "t"], ["t", "x"])) if with_t else ["x"]
    cs = {"kind": kind, "out_dim": out_dim, "order": order, "w0": r.choice((0.7, 1.3, 2.1)),
          "weight": r.choice((1.0, 0.5, 3.0)), "name": "%s%d" % (kind, idx)}
    if kind == "data":
        cs.update(n=r.choice((4, 6, 9)), norm=r.choice((1, 2, 2, 3, "inf")), root=r.choice((1.0, 1.0, 2.0)),
                  full=r.random() < 0.4, dseed=r.randrange(1000), resid_args=[], data_order=list(order))
        if not with_t:
            cs["data_order"] = ["x"]
        cs["batch"] = r.choice((cs["n"], 2, 4))
        return cs
    smp = {"x": {"dom": r.choice(("square", "disc", "ring", "bsquare")), "kind": r.choice(("random", "random", "grid", "lhs")),
                 "n": r.choice((3, 5, 8))},
           "static": r.choice((None, None, "inf", "inf", 2, 3))}
    if smp["x"]["dom"] in ("bsquare",) and smp["x"]["kind"] == "lhs":
        smp["x"]["kind"] = "random"
    if with_t and kind != "periodic":
        smp["t"] = {"kind": r.choice(("random", "grid")), "n": r.choice((1, 2, 3))}
    if kind == "adaptw":
        smp["static"] = "inf"
    if kind == "periodic":
        smp["static"] = r.choice((None, None, "inf"))
    if kind == "integro":
        smp["t"] = {"kind": r.choice(("random", "grid")), "n": r.choice((1, 2, 3))}
        cs["int_sampler"] = {"kind": r.choice(("random", "grid")), "n": r.choice((1, 3, 4))}
    cs["sampler"] = smp
    cs["use_param"] = r.random() < 0.35
    n_df = r.choice((0, 0, 1, 1, 2))
    dfs = {}
    for j in range(n_df):
        pool = [["x"], ["t"], ["x", "t"], ["t", "x"]] if with_t else [["x"]]
        if kind == "periodic":
            pool = [["x"], ["x", "t"], ["t", "x"], ["t"]]
        dfs["f" if j == 0 else "g"] = r.choice(pool)
    if dfs:
        cs["data_fns"] = dfs
    if kind == "periodic":
        args = ["u_left", "u_right"]
        if r.random() < 0.5:
            args.append("x")
        for f in dfs:
            args += [f + "_left", f + "_right"] if r.random() < 0.8 else [f + "_left"]
        if r.random() < 0.4:
            args += ["t_left", "t_right"]
    else:
        args = ["u"] + [v for v in order if r.random() < 0.7] + list(dfs)
        if any(v not in args for v in ("x",)) and r.random() < 0.5:
            args.append("x")
        if kind == "integro":
            args += ["u_integral"] + (["t_integral"] if r.random() < 0.6 else [])
        args = list(dict.fromkeys(args))
        if kind == "integro":
            pass
        elif "x" in args and r.random() < 0.6:
            cs["grad_of"] = ["u", "x"]
        elif "t" in args and r.random() < 0.5:
            cs["grad_of"] = ["u", "t"]
    if cs["use_param"]:
        args.append("k")
    r.shuffle(args)
    cs["resid_args"] = args
    rd_ = rnd(r.random(), "resid-defaults")
    if kind in ("pinn", "mean", "single", "adaptw") and rd_.random() < 0.35:
        # residual arguments declared WITH default values: some of them supplied by the condition (parameter,
        # data functions, coordinates), others not (their default must arrive)
        cand = [a for a in args if a != "u"]
        cs["resid_defaults"] = [a for a in cand if rd_.random() < 0.6]
        if rd_.random() < 0.7:
            cs["resid_extra"] = {"zz": rd_.choice((0.25, -1.5))}
            if rd_.random() < 0.3:
                cs["resid_extra"]["yy"] = 2.0
    cs["coef"] = {a: r.choice((1.0, -0.5, 2.0, 0.25)) for a in args}
    if kind == "single":
        cs["reduce"] = r.choice(("max", "sum", "mean"))
    return cs


def gen_c04(seed):
    r = rnd(seed, "gen")
    cs = gen_cond(r)
    fault = None
    if r.random() < 0.4 and cs["kind"] != "data":
        from . import geo_cases
        fault = geo_cases.gen_fault(r, seed, 1.0)
        fault["reject"] = {k: v for k, v in fault["reject"].items() if k in ("check_in_b", "lhs_inside")}
    return {"format": 1, "property": "C04", "engine": "condsim", "seed": seed, "rng": H(seed, "rng"),
            "cond": cs, "evals": r.randint(1, 8), "fault": fault}


def gen_c14(seed):
    r = rnd(seed, "gen")
    n = r.choice((2, 2, 3, 4))
    sharing = {"data_dict": r.random() < 0.7, "domains": r.random() < 0.5, "wrapped": r.random() < 0.4}
    conds = [gen_cond(r, i, kinds=("pinn", "pinn", "mean", "single", "adaptw", "periodic")) for i in range(n)]
    rdk = rnd(seed, "data-kind")
    if rdk.random() < 0.25:
        # a data condition among them (its full-data-set mode switches the model to eval() for the loop)
        j = rdk.randrange(n)
        conds[j] = gen_cond(rdk, j, kinds=("data",))
        conds[j]["full"] = rdk.random() < 0.7
    if sharing["data_dict"]:
        # the same user dictionary goes into every condition that takes data functions
        base = next((c["data_fns"] for c in conds if c.get("data_fns")), None) or {"f": ["x"]}
        k = 0
        for c in conds:
            if c["kind"] == "data":
                continue
            if c.get("data_fns") or r.random() < 0.6:
                k += 1
                old = list(c.get("data_fns") or {})
                c["data_fns"] = dict(base)
                if c["kind"] == "periodic":
                    c["resid_args"] = [a for a in c["resid_args"] if not any(a.startswith(o + "_") for o in old)]
                    for f in base:
                        c["resid_args"] += [f + "_left", f + "_right"]
                    c["order"] = c["order"] if "t" in c["order"] else ["x", "t"]
                else:
                    c["resid_args"] = [a for a in c["resid_args"] if a not in old] + list(base)
                    need_t = any("t" in a for a in base.values())
                    if need_t and "t" not in c["order"]:
                        c["order"] = ["x", "t"]
                        c["sampler"]["t"] = {"kind": "grid", "n": 2}
                c["resid_args"] = list(dict.fromkeys(c["resid_args"]))
                c["coef"] = {a: c["coef"].get(a, 1.0) for a in c["resid_args"]}
        if k < 2:
            sharing["data_dict"] = False
    rp = rnd(seed, "pdomain")
    if sharing["domains"] and rp.random() < 0.4:
        # one parameter-dependent domain object, partially evaluated with a different value by each condition
        avals = [0.0, 1.0, 2.0, 0.5]
        rp.shuffle(avals)
        k = 0
        for c in conds:
            if c["kind"] in ("pinn", "mean", "single", "adaptw") and rp.random() < 0.8:
                c["sampler"]["x"] = {"dom": "pdisc", "kind": "random", "n": c["sampler"]["x"]["n"], "a": avals[k % 4]}
                c["sampler"].setdefault("t", {"kind": "random", "n": rp.choice((1, 2))})
                c["sampler"]["t"]["kind"] = "random"
                k += 1
        sharing["pdomain"] = k >= 2
    rsf = rnd(seed, "static-factor")
    for c in conds:
        if c["kind"] in ("pinn", "mean", "single") and c["sampler"].get("t") and not c["sampler"].get("static") \
                and c["sampler"]["x"]["dom"] != "pdisc" and rsf.random() < 0.25:
            # both factors of the product frozen separately instead of the product as a whole
            c["sampler"]["static_factor"] = True
    rg_ = rnd(seed, "derived-geometry")
    if sharing["domains"] and rg_.random() < 0.3:
        # one condition builds its own geometry FROM a shared domain (disc minus a t-dependent hole), another one
        # samples the shared disc itself together with t
        cand = [c for c in conds if c["kind"] in ("pinn", "mean", "single") and c["sampler"]["x"]["dom"] != "pdisc"
                and not c["sampler"].get("static_factor")]
        if len(cand) >= 2:
            for c, dname in zip(cand[:2], ("tring", "disc")):
                c["sampler"]["x"] = {"dom": dname, "kind": "random", "n": c["sampler"]["x"]["n"]}
                c["sampler"].setdefault("t", {"kind": "grid", "n": 2})
                c["sampler"]["t"]["n"] = max(2, c["sampler"]["t"]["n"])
                c["sampler"].pop("share_x", None)
            sharing["derived"] = True
    rs_ = rnd(seed, "shared-sampler")
    if rs_.random() < 0.3:
        # ONE non-static sampler object over x used by several conditions: alone, inside a product with a t-sampler,
        # as the non-periodic sampler of a periodic condition
        cand = [c for c in conds if c.get("sampler") and c["sampler"]["x"]["dom"] not in ("pdisc", "tring") and c["kind"] != "adaptw"
                and not c["sampler"].get("static_factor")
                and not (sharing.get("derived") and c["sampler"]["x"]["dom"] == "disc")]
        if len(cand) >= 2:
            x0 = dict(cand[0]["sampler"]["x"])
            for c in cand:
                c["sampler"]["x"] = dict(x0)
                c["sampler"]["share_x"] = True
            sharing["sampler_x"] = True
    hist = []
    order = list(range(n))
    r.shuffle(order)
    built = []
    pending = list(order)
    it = 0
    for _ in range(r.randint(n + 1, 16)):
        if pending and (not built or r.random() < 0.45):
            i = pending.pop(0)
            built.append(i)
            hist.append({"op": "construct", "i": i})
        elif built:
            i = r.choice(built)
            hist.append({"op": "evaluate", "i": i, "iteration": r.choice((None, it)), "repeat": r.random() < 0.5})
            if r.random() < 0.5:
                it += 1
    return {"format": 1, "property": "C14", "engine": "condsim", "seed": seed, "rng": H(seed, "rng"),
            "conds": conds, "sharing": sharing, "history": hist, "fault": None}


def gen_c14_don(seed):
    """DeepONet conditions that share a network and / or a function set, under the Solver's protocol."""
    r = rnd(seed, "gen-don")
    nn = r.choice((1, 1, 1, 2))
    nets = [{"thidden": r.choice(([4], [3, 3])), "bhidden": r.choice(([4], [5, 3])), "m": r.choice((2, 3, 5))} for _ in range(nn)]
    nf = r.choice((1, 2, 2, 3))
    size = r.choice((1, 2, 3, 4))
    same_size = r.random() < 0.7          # equally sized sets: a wrong branch output is silent, not a shape error
    fsets = []
    for j in range(nf):
        m = size if same_size else r.choice((1, 2, 3, 4))
        fsets.append({"fam": r.choice(("lin", "sin", "quad")), "ks": [round(r.uniform(0.1, 1.5), 3) for _ in range(m)]})
    nc = r.choice((2, 2, 3, 4))
    conds = []
    for i in range(nc):
        kind = r.choice(("data", "data", "grid", "random"))
        smp = {"kind": kind}
        if kind == "data":
            smp["pts"] = [round(r.uniform(0, 1), 3) for _ in range(r.choice((1, 3, 5)))]
        else:
            smp["n"] = r.choice((2, 4, 7))
        conds.append({"net": r.randrange(nn), "fset": r.randrange(nf), "sampler": smp,
                      "resid": r.choice(("u_minus_f", "u_minus_f", "u_minus_c", "du_minus_f")), "c": r.choice((0.5, 1.0, 2.0)),
                      "cls": r.choice(("pi", "pi", "single")), "role": r.choice(("train", "train", "val"))})
    if not any(c["role"] == "train" for c in conds):
        conds[0]["role"] = "train"
    train = [i for i, c in enumerate(conds) if c["role"] == "train"]
    val = [i for i, c in enumerate(conds) if c["role"] == "val"]
    hist = []
    for _ in range(r.randint(2, 9)):
        c = r.random()
        if c < 0.5:
            hist.append({"op": "train", "order": list(train)})
            if r.random() < 0.8:
                hist.append({"op": "opt"})
        elif c < 0.8 and val:
            hist.append({"op": "val", "order": list(val)})
        else:
            hist.append({"op": "opt"})
    return {"format": 1, "property": "C14", "engine": "donsim", "seed": seed, "rng": H(seed, "rng"),
            "init": H(seed, "init") % (2 ** 31), "disc": [round(0.05 + 0.9 * j / 5, 4) for j in range(r.choice((3, 6)))],
            "nets": nets, "fsets": fsets, "conds": conds, "history": hist, "sharing": {}, "fault": None}


def gen_c04_don(seed):
    """One physics-informed DeepONet condition (C04: documented reduction over functions, points and components)."""
    r = rnd(seed, "gen-don04")
    kind = r.choice(("data", "grid", "random"))
    smp = {"kind": kind}
    if kind == "data":
        smp["pts"] = [round(r.uniform(0, 1), 3) for _ in range(r.choice((1, 2, 3, 5)))]
    else:
        smp["n"] = r.choice((1, 2, 4, 7))
    cond = {"net": 0, "fset": 0, "sampler": smp, "resid": r.choice(("u_minus_f", "u_minus_c", "du_minus_f")),
            "c": r.choice((0.5, 1.0, 2.0)), "cls": r.choice(("pi", "pi", "single"))}
    return _don04_random_fset({"format": 1, "property": "C04", "engine": "donsim", "seed": seed, "rng": H(seed, "rng"),
            "init": H(seed, "init") % (2 ** 31), "udim": r.choice((1, 1, 2)),
            "disc": [round(0.05 + 0.9 * j / 5, 4) for j in range(r.choice((3, 6)))],
            "nets": [{"thidden": r.choice(([4], [3, 3])), "bhidden": r.choice(([4], [5, 3])), "m": r.choice((2, 3, 5))}],
            "fsets": [{"fam": r.choice(("lin", "sin", "quad")), "ks": [round(r.uniform(0.1, 1.5), 3) for _ in range(r.choice((1, 2, 3, 4)))]}],
            "conds": [cond], "evals": r.choice((1, 2, 3)), "fault": None}, seed)


def _don04_random_fset(case, seed):
    r = rnd(seed, "gen-don04-fset")
    rn = rnd(seed, "gen-don04-neighbour")
    if rn.random() < 0.5:
        fs0 = case["fsets"][0]
        case["fsets"] = [fs0, {"fam": rn.choice(("lin", "sin", "quad")), "ks": [round(rn.uniform(0.1, 1.5), 3) for _ in fs0["ks"]]}]
        return case
    if r.random() < 0.5:
        fs = case["fsets"][0]
        case["fsets"] = [{"fam": fs["fam"], "kn": len(fs["ks"])}]     # function parameters drawn afresh every iteration
        case["evals"] = r.choice((2, 3, 4))
    return case
