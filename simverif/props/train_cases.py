"""Generators of training configurations (C07) and crash schedules (C19)."""
from ..core.seed import H, rnd


def _sampler(r, deterministic):
    dom = r.choice(("square", "square", "disc", "bsquare", "ring", "tri"))
    if deterministic:
        kind = "grid"
        static = "inf"
        if dom in ("ring",):
            dom = "square"     # grids of Boolean domains may need random top-up points
    else:
        kind = r.choice(("grid", "random", "random", "lhs"))
        if kind == "lhs" and dom in ("bsquare",):
            kind = "random"
        static = r.choice((None, None, "inf", 2, 3))
    n = r.choice((4, 9, 16, 25))
    return {"dom": dom, "kind": kind, "n": n, "static": static}


def _cond(r, have_param, deterministic):
    kind = r.choice(("pinn", "pinn", "pinn", "mean", "data", "adaptw") + (("paramcond",) if have_param else ()))
    c = {"kind": kind, "weight": r.choice((1.0, 0.5, 2.0, 10.0, 0.125)), "model": 0}
    if kind == "data":
        c.update(n=r.choice((6, 10, 12)), norm=r.choice((2, 2, 1, "inf")))
        c["batch"] = c["n"] if deterministic else r.choice((c["n"], 4, 5))
        return c
    if kind == "paramcond":
        return c
    c["sampler"] = _sampler(r, deterministic)
    if kind == "adaptw":
        c["sampler"]["static"] = "inf"
        c["sampler"]["kind"] = "grid" if deterministic else c["sampler"]["kind"]
    if kind == "mean":
        c["resid"] = "mean_sq"
    else:
        opts = ["u_minus_c", "u_minus_sin", "lap", "grad"]
        if have_param:
            opts += ["lap_k", "u_minus_k", "lap_kdef", "u_minus_kdef"]
        c["resid"] = r.choice(opts)
        if c["resid"] in ("lap_k", "u_minus_k", "lap_kdef", "u_minus_kdef"):
            c["use_param"] = True
        if r.random() < 0.2 and c["resid"] == "u_minus_c":
            c["resid"] = "u_minus_f"
            c["data_fn"] = True
            if c["sampler"].get("static") not in (None, "inf"):
                c["sampler"]["static"] = "inf"     # F20: finite-interval static + data function is a known finding of C04
    c["c"] = r.choice((0.5, 1.0, 2.0))
    return c


def gen_spec(r, seed, deterministic=False):
    have_param = r.random() < 0.4
    n_models = 1 if r.random() < 0.8 else 2
    spec = {"init": H(seed, "init") % (2 ** 31),
            "models": [{"hidden": r.choice(([4], [5, 5], [6, 4], [3, 3, 3])),
                        "act": r.choice(("tanh", "tanh", "adaptive"))} for _ in range(n_models)],
            "param": r.choice((0.5, 1.5)) if have_param else None}
    rm = rnd(seed, "model-classes")
    for m in spec["models"]:
        # the other point-wise architectures the library ships (their state dicts must survive save / load too)
        c = rm.random()
        if c < 0.15:
            m.update(cls="harmonic", maxf=rm.choice((1, 2, 3)), minf=rm.choice((0, 0, 1)))
            m["minf"] = min(m["minf"], m["maxf"] - 1)      # the constructor demands max > min
        elif c < 0.25:
            m.update(cls="qres")
        elif c < 0.33:
            m.update(cls="ritz")
        elif c < 0.40:
            m.update(cls="poly")
    conds = [_cond(r, have_param, deterministic) for _ in range(r.choice((1, 2, 2, 3, 4)))]
    if conds[0]["kind"] in ("paramcond",):
        conds[0] = _cond(r, False, deterministic)
        conds[0]["kind"] = "pinn"
        conds[0].setdefault("sampler", _sampler(r, deterministic))
        conds[0].setdefault("resid", "u_minus_c")
        conds[0].setdefault("c", 1.0)
    for c in conds:
        c["model"] = r.randrange(n_models)
    conds[0]["model"] = 0
    if have_param and not any(c.get("use_param") or c["kind"] == "paramcond" for c in conds):
        conds.append({"kind": "paramcond", "weight": 1.0, "model": 0})
    spec["conds"] = conds
    rz = rnd(seed, "zero-weight")
    if len(conds) >= 2 and rz.random() < 0.12:
        # a condition that is only monitored (weight exactly 0): it must still be evaluated once per step -- its
        # sampler draws from the same stream as everybody else's
        conds[rz.randrange(len(conds) - 1)]["weight"] = 0.0
    if r.random() < 0.35:
        # several conditions keep the library's default name, or share a user-given one
        nm = r.choice(("default", "default", "same"))
        for c in conds:
            if r.random() < 0.8:
                c["name"] = nm
    cls = r.choice(("SGD", "SGD", "Adam", "Adam", "AdamW", "RMSprop", "Adagrad"))
    args = {}
    if cls == "SGD" and r.random() < 0.5:
        args = {"momentum": 0.9, "nesterov": r.random() < 0.5}
    if cls == "Adam" and r.random() < 0.3:
        args = {"betas": [0.8, 0.95], "weight_decay": 0.01}
    opt = {"cls": cls, "lr": r.choice((1e-2, 3e-2, 1e-3)), "args": args, "sched": None}
    c = r.random()
    if c < 0.2:
        opt["sched"] = {"cls": "StepLR", "args": {"step_size": r.choice((1, 2, 3)), "gamma": 0.5}}
    elif c < 0.35:
        opt["sched"] = {"cls": "ExponentialLR", "args": {"gamma": 0.7}}
    elif c < 0.45:
        opt["sched"] = {"cls": "MultiStepLR", "args": {"milestones": [2, 5], "gamma": 0.3}}
    if opt["sched"]:
        opt["sched"]["freq"] = r.choice((1, 1, 2, 3))
    spec["opt"] = opt
    spec["N"] = r.randint(1, 12)
    return spec


def gen_c07(seed):
    r = rnd(seed, "gen")
    spec = gen_spec(r, seed, deterministic=False)
    # validation conditions: pre-drawn static samples so their presence does not shift the stream
    val = []
    for _ in range(r.choice((0, 0, 1, 2))):
        c = _cond(r, False, True)
        if c["kind"] in ("adaptw", "paramcond"):
            c = {"kind": "data", "n": 6, "norm": 2, "batch": 6, "weight": 1.0, "model": 0, "full": True}
        c["model"] = 0
        val.append(c)
    spec["val"] = val
    rd = rnd(seed, "deeponet")
    if rd.random() < 0.25:
        # physics-informed DeepONet conditions sharing one DeepONet; function sets drawn afresh every step or fixed
        spec["don"] = {"thidden": rd.choice(([4], [3, 3])), "bhidden": rd.choice(([4], [5, 3])), "m": rd.choice((2, 3)),
                       "disc": [round(0.05 + 0.9 * j / 5, 4) for j in range(rd.choice((3, 6)))]}
        size = rd.choice((1, 2, 3))
        spec["fsets"] = [({"fam": rd.choice(("lin", "sin", "quad")), "kn": size} if rd.random() < 0.4 else
                          {"fam": rd.choice(("lin", "sin", "quad")), "ks": [round(rd.uniform(0.1, 1.5), 3) for _ in range(size)]})
                         for _ in range(rd.choice((1, 2, 2)))]

        def pidon(det):
            kind = rd.choice(("data", "grid") if det else ("data", "grid", "random"))
            smp = {"kind": kind}
            if kind == "data":
                smp["pts"] = [round(rd.uniform(0, 1), 3) for _ in range(rd.choice((1, 3, 5)))]
            else:
                smp["n"] = rd.choice((2, 4))
            cs = {"kind": "pidon", "weight": rd.choice((1.0, 0.5, 2.0)), "model": 0, "fset": rd.randrange(len(spec["fsets"])),
                  "tsampler": smp, "resid": rd.choice(("u_minus_f", "u_minus_c", "du_minus_f")), "c": rd.choice((0.5, 1.0))}
            if cs["resid"] != "du_minus_f" and rd.random() < 0.5:
                cs["track"] = False        # data-like residual: no input gradients (validation then runs without grad)
            return cs
        for _ in range(rd.choice((1, 2, 2))):
            spec["conds"].append(pidon(False))
        if rd.random() < 0.5:
            # a validation condition on the same DeepONet (fixed function parameters: no draws that shift the stream)
            vfs = [i for i, f in enumerate(spec["fsets"]) if not f.get("kn")]
            if not vfs:
                spec["fsets"].append({"fam": "lin", "ks": [round(rd.uniform(0.1, 1.5), 3) for _ in range(size)]})
                vfs = [len(spec["fsets"]) - 1]
            v = pidon(True)
            v["fset"] = rd.choice(vfs)
            spec["val"].append(v)
            val = spec["val"]
    tr = {"sanity": r.choice((0, 0, 2)), "log_every_n_steps": r.choice((None, 1, 3, 50))}
    if val:
        tr["val_check_interval"] = r.choice((None, 1, 2, 3))
        if tr["val_check_interval"] and tr["val_check_interval"] > spec["N"]:
            tr["val_check_interval"] = None
        tr["check_val_every_n_epoch"] = r.choice((1, 1, None)) if not tr["val_check_interval"] else 1
    spec["trainer"] = {k: v for k, v in tr.items() if v is not None or k == "check_val_every_n_epoch"}
    if spec["trainer"].get("check_val_every_n_epoch", 1) is None and not spec["trainer"].get("val_check_interval"):
        spec["trainer"]["check_val_every_n_epoch"] = 1
    fault = None
    if r.random() < 0.4:
        from . import geo_cases
        fault = geo_cases.gen_fault(r, seed, 1.0)
        fault["reject"] = {k: v for k, v in fault["reject"].items() if k == "check_in_b"}
    prelude = None
    if r.random() < 0.4:
        prelude = {"init": 7, "models": [{"hidden": [3], "act": "tanh"}], "param": None,
                   "conds": [{"kind": "pinn", "weight": 1.0, "model": 0, "resid": "u_minus_c", "c": 1.0,
                              "sampler": {"dom": "square", "kind": "grid", "n": 4, "static": "inf"}}],
                   "opt": {"cls": r.choice(("SGD", "Adam")), "lr": r.choice((0.5, 1e-4)), "args": {}, "sched": None},
                   "N": r.choice((1, 2)), "val": [], "trainer": {"sanity": 0}}
    rl = rnd(seed, "long-run")
    if rl.random() < 0.008:
        # a rare LONG run (> 1000 steps) of a cheap world: step counters, epoch boundaries and scheduler phases
        # of the trainer must agree with the plain loop beyond the first thousand steps too
        spec["models"] = [{"hidden": [3], "act": "tanh"}]
        spec["param"] = None
        spec["conds"] = [{"kind": "pinn", "weight": rl.choice((1.0, 0.5)), "model": 0, "resid": "u_minus_sin", "c": 1.0,
                          "sampler": {"dom": "square", "kind": "grid", "n": 4, "static": "inf"}}]
        spec["val"] = []
        spec.pop("don", None)
        spec.pop("fsets", None)
        spec["opt"] = {"cls": "SGD", "lr": 1e-2, "args": {},
                       "sched": {"cls": "StepLR", "args": {"step_size": 1, "gamma": rl.choice((0.98, 0.995))},
                                 "freq": rl.choice((3, 7, 600, 1001))}}
        spec["N"] = rl.choice((1003, 1010, 1205))
        spec["trainer"] = {"sanity": 0, "check_val_every_n_epoch": 1}
        fault, prelude = None, None
    return {"format": 1, "property": "C07", "engine": "trainsim", "seed": seed, "rng": H(seed, "rng"),
            "spec": spec, "fault": fault, "prelude": prelude}


def gen_c19(seed, tier="quick"):
    from ..trainsim import HOOKS
    r = rnd(seed, "gen")
    spec = gen_spec(r, seed, deterministic=True)
    spec["N"] = r.randint(2, 8 if tier == "quick" else 12)
    spec["val"] = []
    spec["trainer"] = {"sanity": 0}
    if spec["conds"][0]["kind"] in ("paramcond", "data") or "sampler" not in spec["conds"][0]:
        spec["conds"].insert(0, {"kind": "pinn", "weight": 1.0, "model": 0, "resid": "u_minus_c", "c": 1.0,
                                 "sampler": _sampler(r, True)})
    rd = rnd(seed, "deeponet-c19")
    if rd.random() < 0.2:
        # a physics-informed DeepONet condition (deterministic: fixed function parameters, data / grid trunk points):
        # trunk and branch weights are part of the state a checkpoint must restore
        spec["don"] = {"thidden": rd.choice(([4], [3, 3])), "bhidden": rd.choice(([4], [5, 3])), "m": rd.choice((2, 3)),
                       "disc": [round(0.05 + 0.9 * j / 5, 4) for j in range(rd.choice((3, 6)))]}
        spec["fsets"] = [{"fam": rd.choice(("lin", "sin", "quad")), "ks": [round(rd.uniform(0.1, 1.5), 3) for _ in range(rd.choice((1, 2, 3)))]}]
        for _ in range(rd.choice((1, 2))):
            kind = rd.choice(("data", "grid"))
            smp = {"kind": kind, "pts": [round(rd.uniform(0, 1), 3) for _ in range(3)]} if kind == "data" else {"kind": kind, "n": rd.choice((2, 4))}
            spec["conds"].append({"kind": "pidon", "weight": rd.choice((1.0, 0.5)), "model": 0, "fset": 0, "tsampler": smp,
                                  "resid": rd.choice(("u_minus_f", "u_minus_c", "du_minus_f")), "c": 1.0})
    c_int = r.choice((1, 1, 2, 3))
    w_int = r.choice((1, 2, 3, -1))
    N = spec["N"]
    mode = r.random()
    if mode < 0.7:
        # every single crash point of this configuration
        crashes = [[[k, h]] for k in range(N) for h in HOOKS]
    else:
        crashes = []
        for _ in range(6):
            ks = sorted(r.sample(range(N), min(N, r.choice((2, 3)))))
            crashes.append([[k, r.choice(HOOKS)] for k in ks])
    return {"format": 1, "property": "C19", "engine": "trainsim", "seed": seed, "rng": H(seed, "rng"),
            "spec": spec, "ckpt_interval": c_int, "weight_interval": w_int, "crashes": crashes,
            "save_initial": r.random() < 0.8, "save_final": r.random() < 0.9, "fault": None}
