"""Builds real torchphysics objects from R-geo ASTs (the same mathematical
function is handed to torchphysics as a Python callable on tensors and to the
reference model as a float64 evaluator)."""
import numpy as np
import torch

import torchphysics as tp
from torchphysics.problem.spaces import Points

from .ref import geometry as G

_SPACE = {1: tp.spaces.R1, 2: tp.spaces.R2, 3: tp.spaces.R3}


def mkspace(var, d):
    if d in _SPACE:
        return _SPACE[d](var)
    return tp.spaces.Rn(var, d)


def space_of(node):
    sp = None
    for v, d in G.space(node):
        s = mkspace(v, d)
        sp = s if sp is None else sp * s
    return sp


def scalar(E):
    """Constant -> float; else callable with named tensor args returning (rows,1)."""
    if isinstance(E, (int, float)):
        return float(E)
    vs = sorted(G.e_vars(E))
    opt = G.e_opt(E)
    if not vs and opt:
        raise ValueError("a shape function needs at least one required variable")
    sig = vs + ["%s=%r" % (v, d) for v, d in sorted(opt.items()) if v not in vs]
    src = "lambda %s: %s" % (", ".join(sig), G.e_src(E))
    return eval(src, {"torch": torch})


def vector(Es):
    vs = sorted(set().union(*[G.e_vars(E) for E in Es]))
    if not vs:
        return [float(E) for E in Es]
    zero = "0*(%s)" % " + ".join(vs)     # broadcasts every component to the common number of rows
    comps = ["(%s + %s)" % (G.e_src(E), zero) for E in Es]
    src = "lambda %s: torch.cat([%s], dim=1)" % (", ".join(vs), ", ".join(comps))
    return eval(src, {"torch": torch})


def build(node):
    k = node["k"]
    D = tp.domains
    if k == "iv":
        return D.Interval(mkspace(node["var"], 1), scalar(node["a"]), scalar(node["b"]))
    if k == "circ":
        return D.Circle(mkspace(node["var"], 2), vector(node["c"]), scalar(node["r"]))
    if k == "sph":
        return D.Sphere(mkspace(node["var"], 3), vector(node["c"]), scalar(node["r"]))
    if k == "par":
        return D.Parallelogram(mkspace(node["var"], 2), vector(node["o"]), vector(node["c1"]), vector(node["c2"]))
    if k == "tri":
        return D.Triangle(mkspace(node["var"], 2), vector(node["o"]), vector(node["c1"]), vector(node["c2"]))
    if k == "pt":
        return D.Point(mkspace(node["var"], node["dim"]), vector(node["p"]))
    if k == "poly":
        from torchphysics.problem.domains.domain2D.shapely_polygon import ShapelyPolygon
        if node.get("holes"):
            import shapely.geometry as s_geo
            return ShapelyPolygon(mkspace(node["var"], 2), shapely_polygon=s_geo.Polygon(
                [tuple(map(float, v)) for v in node["verts"]], [[tuple(map(float, v)) for v in h] for h in node["holes"]]))
        return ShapelyPolygon(mkspace(node["var"], 2), vertices=[list(map(float, v)) for v in node["verts"]])
    if k == "union":
        from torchphysics.problem.domains.domainoperations.union import UnionDomain
        a, b = build(node["a"]), build(node["b"])
        if node.get("disjoint"):
            return UnionDomain(a, b, disjoint=True)
        return a + b
    if k == "cut":
        from torchphysics.problem.domains.domainoperations.cut import CutDomain
        a, b = build(node["a"]), build(node["b"])
        if node.get("contained"):
            return CutDomain(a, b, contained=True)
        return a - b
    if k == "inter":
        return build(node["a"]) & build(node["b"])
    if k == "prod":
        return build(node["a"]) * build(node["b"])
    if k == "transl":
        return D.Translate(build(node["d"]), vector(node["v"]))
    if k == "rot":
        around = vector(node["around"])
        if isinstance(around, list):
            around = [around]
        return D.Rotate.from_angles(build(node["d"]), scalar(node["ang"]), rotate_around=around)
    if k == "bnd":
        return build(node["d"]).boundary
    if k == "bleft":
        return build(node["d"]).boundary_left
    if k == "bright":
        return build(node["d"]).boundary_right
    raise ValueError(k)


def params_points(pspace, rows):
    """pspace: list of (var, dim); rows: list of rows (flat list of floats)."""
    if not pspace or not rows:
        return Points.empty()
    sp = None
    for v, d in pspace:
        s = mkspace(v, d)
        sp = s if sp is None else sp * s
    t = torch.tensor(rows, dtype=torch.float32).reshape(len(rows), -1)
    return Points(t, sp)


def table(points, extra=None):
    """Points -> row table (dict var -> float64 array) for the reference model."""
    P = {}
    if points is not None and not points.isempty:
        t = points.as_tensor.detach()
        j = 0
        for v in points.space:
            d = points.space[v]
            P[v] = t[:, j:j + d].double().numpy()
            j += d
    if extra:
        for v, a in extra.items():
            if v not in P:
                P[v] = a
    return P


def repeat_rows(pspace, rows, n):
    """Row table of parameter rows, each repeated n times (row i//n pairing)."""
    out = {}
    if not pspace or not rows:
        return out
    a = np.asarray(rows, float).reshape(len(rows), -1)
    a = np.repeat(a, n, axis=0)
    j = 0
    for v, d in pspace:
        out[v] = a[:, j:j + d]
        j += d
    return out
