"""trainsim -- training histories under a scheduler we do not own (Lightning)
and crash/restart with only files surviving.

World A is the real ``Solver`` driven by a real ``pl.Trainer``; the simulator
chooses the trainer options (validation interleaving, sanity steps, callback
order), owns every random draw of the library (SimRNG) and the crash points
(a callback raising ``SimCrash`` from a chosen hook).  World B is R-loop, a plain
optimisation loop over the learnable tensors found by our own traversal of the
condition objects.  Both worlds are built by running the same recipe (the case
spec); nothing is deep-copied.
"""
import logging
import math
import os
import shutil
import tempfile
import traceback
import warnings

import torch

from .core.simrng import SimRNG
from .core.seed import H
from .geosim import viol, innermost_site

warnings.filterwarnings("ignore")
for _n in ("pytorch_lightning", "lightning", "lightning.pytorch", "lightning_fabric",
           "pytorch_lightning.utilities.rank_zero", "pytorch_lightning.accelerators.cuda"):
    logging.getLogger(_n).setLevel(logging.ERROR)


class SimCrash(Exception):
    """Injected process crash."""


# ------------------------------------------------------------------ recipe
def _resid(name, c):
    """Residual functions by name (rebuilt identically in every world)."""
    import torchphysics as tp
    lap, grad = tp.utils.laplacian, tp.utils.grad
    if name == "u_minus_c":
        return lambda u: u - c
    if name == "u_minus_sin":
        return lambda u, x: u - torch.sin(c * x[:, :1])
    if name == "lap":
        return lambda u, x: lap(u, x) - c * torch.sin(x[:, :1])
    if name == "grad":
        return lambda u, x: grad(u, x)[:, :1] - c * u
    if name == "lap_k":
        return lambda u, x, k: lap(u, x) - k * torch.sin(x[:, :1])
    if name == "u_minus_k":
        return lambda u, k: u - k * c
    if name == "lap_kdef":      # the learnable parameter overrides a default value of the residual argument
        return lambda u, x, k=1.0: lap(u, x) - k * torch.sin(x[:, :1])
    if name == "u_minus_kdef":
        return lambda u, k=0.75: u - k * c
    if name == "u_minus_f":
        return lambda u, f: u - f
    if name == "mean_sq":
        return lambda u, x: (u - c * x[:, 1:2]) ** 2
    if name == "periodic":
        return lambda u_left, u_right: u_left - u_right
    raise ValueError(name)


def _domain(name):
    import torchphysics as tp
    X = tp.spaces.R2("x")
    D = tp.domains
    sq = D.Parallelogram(X, [0, 0], [1, 0], [0, 1])
    if name == "square":
        return sq
    if name == "bsquare":
        return sq.boundary
    if name == "disc":
        return D.Circle(X, [0.5, 0.5], 0.5)
    if name == "ring":
        return D.Circle(X, [0.5, 0.5], 0.5) - D.Circle(X, [0.5, 0.5], 0.2)
    if name == "tri":
        return D.Triangle(X, [0, 0], [1, 0], [0.25, 1])
    raise ValueError(name)


def _sampler(spec):
    import torchphysics as tp
    S = tp.samplers
    dom = _domain(spec["dom"])
    if spec["kind"] == "grid":
        s = S.GridSampler(dom, n_points=spec["n"])
    elif spec["kind"] == "random":
        s = S.RandomUniformSampler(dom, n_points=spec["n"])
    elif spec["kind"] == "lhs":
        s = S.LHSSampler(dom, n_points=spec["n"])
    else:
        raise ValueError(spec["kind"])
    st = spec.get("static")
    if st == "inf":
        s = s.make_static()
    elif st:
        s = s.make_static(int(st))
    return s


class World:
    pass


def build_world(spec, init_seed):
    """Run the construction recipe once: models, parameter, conditions, Solver."""
    import torchphysics as tp
    torch.manual_seed(int(init_seed) % (2 ** 31))
    X = tp.spaces.R2("x")
    U = tp.spaces.R1("u")
    w = World()
    w.models = []
    for m in spec["models"]:
        act = {"tanh": torch.nn.Tanh(), "sin": tp.models.Sinus() if hasattr(tp.models, "Sinus") else torch.nn.Tanh(),
               "adaptive": tp.models.AdaptiveActivationFunction(torch.nn.Tanh()) if hasattr(tp.models, "AdaptiveActivationFunction") else torch.nn.Tanh()}[m.get("act", "tanh")]
        mc = m.get("cls", "fcn")
        if mc == "harmonic":
            w.models.append(tp.models.Harmonic_FCN(X, U, max_frequenz=int(m.get("maxf", 2)), hidden=tuple(m["hidden"]),
                                                   min_frequenz=int(m.get("minf", 0)), activations=act))
        elif mc == "qres":
            w.models.append(tp.models.QRES(X, U, hidden=tuple(m["hidden"]), activations=act))
        elif mc == "ritz":
            w.models.append(tp.models.DeepRitzNet(X, U, width=int(m["hidden"][0]), depth=len(m["hidden"])))
        elif mc == "poly":
            w.models.append(tp.models.Polynomial_FCN(X, U, polynomial_degree=2, hidden=tuple(m["hidden"])))
        else:
            w.models.append(tp.models.FCN(X, U, hidden=tuple(m["hidden"]), activations=act))
    w.param = None
    if spec.get("param") is not None:
        w.param = tp.models.Parameter(float(spec["param"]), tp.spaces.R1("k"))

    def mk(cs, idx):
        kind = cs["kind"]
        model = w.models[cs.get("model", 0)]
        kw = {"name": "%s%d" % (kind, idx), "weight": float(cs.get("weight", 1.0))}
        if cs.get("name") == "default":
            kw.pop("name")            # users often keep the library's default name for several conditions
        elif cs.get("name"):
            kw["name"] = cs["name"]
        if cs.get("use_param") and w.param is not None:
            kw["parameter"] = w.param
        if kind == "data":
            n = cs["n"]
            g = torch.Generator().manual_seed(1000 + idx)
            xs = torch.rand(n, 2, generator=g)
            ys = torch.sin(3 * xs[:, :1]) + xs[:, 1:]
            dl = tp.utils.PointsDataLoader((tp.spaces.Points(xs, X), tp.spaces.Points(ys, U)),
                                           batch_size=cs.get("batch", n))
            return tp.conditions.DataCondition(model, dl, norm=cs.get("norm", 2),
                                               use_full_dataset=bool(cs.get("full", False)),
                                               weight=kw["weight"], **({"name": kw["name"]} if "name" in kw else {}))
        if kind == "pidon":
            # physics-informed DeepONet condition; all of them share ONE DeepONet (branch cache!) but may use
            # different function sets
            from . import donsim
            dcase = {"init": int(init_seed) + 17, "disc": spec["don"]["disc"], "udim": 1}
            if getattr(w, "don", None) is None:
                st = torch.random.get_rng_state()
                w.don = donsim.make_net(dcase, spec["don"], 0)
                torch.random.set_rng_state(st)
                w.fsets = {}
            fi = int(cs["fset"])
            if fi not in w.fsets:
                fs = spec["fsets"][fi]
                if fs.get("kn"):
                    T_, K_, F_, U_ = donsim._spaces()
                    fspace = tp.spaces.FunctionSpace(tp.domains.Interval(T_, 0.0, 1.0), F_)
                    w.fsets[fi] = tp.domains.CustomFunctionSet(
                        fspace, tp.samplers.RandomUniformSampler(tp.domains.Interval(K_, 0.1, 1.5), n_points=int(fs["kn"])),
                        donsim.fam(fs["fam"]))
                else:
                    w.fsets[fi] = donsim.make_fset(dcase, fs)
            smp = donsim.make_sampler(cs["tsampler"])
            res = donsim.make_resid(cs)
            return tp.conditions.PIDeepONetCondition(w.don, w.fsets[fi], smp, res, weight=kw["weight"],
                                                     track_gradients=bool(cs.get("track", True)),
                                                     **({"name": kw["name"]} if "name" in kw else {}))
        if kind == "paramcond":
            return tp.conditions.ParameterCondition(w.param, lambda k: torch.sum((k - 2.0) ** 2),
                                                    weight=kw["weight"], **({"name": kw["name"]} if "name" in kw else {}))
        smp = _sampler(cs["sampler"])
        res = _resid(cs["resid"], float(cs.get("c", 1.0)))
        if cs.get("data_fn"):
            kw["data_functions"] = {"f": (lambda x: torch.cos(2.0 * x[:, :1]) * x[:, 1:])}
        if kind == "pinn":
            return tp.conditions.PINNCondition(model, smp, res, **kw)
        if kind == "mean":
            return tp.conditions.MeanCondition(model, smp, res, **kw)
        if kind == "adaptw":
            return tp.conditions.AdaptiveWeightsCondition(model, smp, res, **kw)
        raise ValueError(kind)

    w.train = [mk(cs, i) for i, cs in enumerate(spec["conds"])]
    # the weights the USER configured (the reference loop must not read them back from the condition objects)
    w.train_w = [float(cs.get("weight", 1.0)) for cs in spec["conds"]]
    w.val = [mk(cs, 100 + i) for i, cs in enumerate(spec.get("val", []))]
    for c in w.val:
        # validation conditions get pre-drawn static samples, so that their presence
        # (world A evaluates them, world B never does) cannot shift the training stream
        if hasattr(c, "sampler"):
            c.sampler.sample_points()
    o = spec["opt"]
    ocls = getattr(torch.optim, o["cls"])
    # library defaults are used wherever the configuration does not say otherwise (as users do):
    # state leaking between Solver instances through shared default arguments is part of C07's
    # "for all histories"
    okw = {}
    if o.get("args"):
        okw["optimizer_args"] = dict(o["args"])
    if o.get("sched"):
        scls = getattr(torch.optim.lr_scheduler, o["sched"]["cls"])
        setting = tp.OptimizerSetting(ocls, lr=o["lr"], scheduler_class=scls, scheduler_args=dict(o["sched"]["args"]),
                                      scheduler_frequency=int(o["sched"].get("freq", 1)), **okw)
    else:
        setting = tp.OptimizerSetting(ocls, lr=o["lr"], **okw)
    w.setting = setting
    w.solver = tp.solver.Solver(w.train, val_conditions=w.val, optimizer_setting=setting)
    return w


# ------------------------------------------------- own traversal (R-loop)
def learnable_tensors(conds):
    """Every tensor with requires_grad reachable from the condition objects, found
    by walking python attributes ourselves (not through Solver.parameters())."""
    found = {}
    seen = set()

    def walk(obj, path, depth):
        if id(obj) in seen or depth > 8:
            return
        seen.add(id(obj))
        if isinstance(obj, torch.Tensor):
            if obj.requires_grad and obj.is_leaf and obj.numel() > 0:
                found.setdefault(id(obj), (path, obj))
            return
        if isinstance(obj, (str, int, float, bool, type(None))):
            return
        if isinstance(obj, (list, tuple)):
            for i, o in enumerate(obj):
                walk(o, "%s[%d]" % (path, i), depth + 1)
            return
        if isinstance(obj, dict):
            for k, o in obj.items():
                walk(o, "%s[%r]" % (path, k), depth + 1)
            return
        if isinstance(obj, torch.nn.Module):
            for n, p in obj._parameters.items():
                walk(p, path + "." + n, depth + 1)
            for n, m in obj._modules.items():
                walk(m, path + "." + n, depth + 1)
        d = getattr(obj, "__dict__", None)
        if d and (isinstance(obj, torch.nn.Module) or type(obj).__module__.startswith("torchphysics")):
            for n, o in d.items():
                if n in ("_parameters", "_modules", "_buffers", "sampler", "dataloader", "iterator") or n.startswith("_forward") or n.startswith("_backward"):
                    continue
                if callable(o) and not isinstance(o, torch.nn.Module) and type(o).__name__ in ("function", "method"):
                    # closures may hold modules (AdaptiveWeightsCondition's reduce function)
                    for cell in (getattr(o, "__closure__", None) or ()):
                        try:
                            walk(cell.cell_contents, path + "." + n + "<closure>", depth + 1)
                        except ValueError:
                            pass
                    continue
                walk(o, path + "." + n, depth + 1)
        t = getattr(obj, "_t", None)
        if isinstance(t, torch.Tensor):
            walk(t, path + "._t", depth + 1)

    for i, c in enumerate(conds):
        walk(c, "cond%d" % i, 0)
    return [v for _, v in sorted(found.items(), key=lambda kv: kv[1][0])]


def snapshot(tensors):
    return [t.detach().clone() for _, t in tensors]


def run_reference(spec, sim_seed, fault):
    """World B: the plain loop of the documented formula."""
    sim = SimRNG(sim_seed, fault=fault)
    with sim:
        w = build_world(spec, spec["init"])
        tensors = learnable_tensors(w.train)
        o = spec["opt"]
        opt = getattr(torch.optim, o["cls"])([t for _, t in tensors], lr=o["lr"], **dict(o.get("args", {})))
        sched = None
        if o.get("sched"):
            sched = getattr(torch.optim.lr_scheduler, o["sched"]["cls"])(opt, **dict(o["sched"]["args"]))
        freq = int(o["sched"].get("freq", 1)) if o.get("sched") else 1
        init = snapshot(tensors)
        states, lrs = [], []
        for t in range(spec["N"]):
            sim.begin_op()
            opt.zero_grad()
            loss = torch.zeros(1, requires_grad=True)
            for c, cw in zip(w.train, w.train_w):
                loss = loss + cw * c(device="cpu", iteration=t)
            loss.backward()
            opt.step()
            if sched is not None and (t + 1) % freq == 0:
                sched.step()
            states.append(snapshot(tensors))
            lrs.append(opt.param_groups[0]["lr"])
    return {"names": [n for n, _ in tensors], "init": init, "states": states, "lrs": lrs,
            "draws": sim.seq, "digest": sim.digest(), "fired": dict(sim.fired),
            "last_epoch": None if sched is None else sched.last_epoch}


# ------------------------------------------------------------- world A
def make_trainer(N, callbacks, opts):
    import pytorch_lightning as pl
    kw = dict(max_steps=N, accelerator="cpu", devices=1, logger=False, enable_checkpointing=False,
              enable_progress_bar=False, enable_model_summary=False, callbacks=list(callbacks))
    kw["num_sanity_val_steps"] = int(opts.get("sanity", 0))
    if opts.get("val_check_interval"):
        kw["val_check_interval"] = int(opts["val_check_interval"])
    if opts.get("check_val_every_n_epoch") is not None:
        kw["check_val_every_n_epoch"] = opts["check_val_every_n_epoch"]
    if opts.get("log_every_n_steps"):
        kw["log_every_n_steps"] = int(opts["log_every_n_steps"])
    return pl.Trainer(**kw)


def run_solver(spec, sim_seed, fault, extra_callbacks=(), ckpt_path=None, init_seed=None, record=True,
               callbacks_first=()):
    import pytorch_lightning as pl
    sim = SimRNG(sim_seed, fault=fault)
    out = {"crashed": None}
    with sim:
        w = build_world(spec, spec["init"] if init_seed is None else init_seed)
        tensors = learnable_tensors(w.train)
        init = snapshot(tensors)
        calls = []          # (cond index, iteration) in call order
        for i, c in enumerate(w.train + w.val):
            orig = c.forward

            def fwd(device="cpu", iteration=None, _o=orig, _i=i):
                calls.append((_i, iteration))
                return _o(device=device, iteration=iteration)
            c.forward = fwd
        states, lrs, val_marks = [], [], []

        class Recorder(pl.Callback):
            def on_train_batch_start(self, trainer, pl_module, batch, batch_idx):
                sim.begin_op()

            def on_train_batch_end(self, trainer, pl_module, outputs, batch, batch_idx):
                if record:
                    states.append(snapshot(tensors))
                    lrs.append(trainer.optimizers[0].param_groups[0]["lr"])

            def on_validation_start(self, trainer, pl_module):
                val_marks.append(("start", len(states), snapshot(tensors)))

            def on_validation_end(self, trainer, pl_module):
                val_marks.append(("end", len(states), snapshot(tensors)))
        trainer = make_trainer(spec["N"], list(callbacks_first) + [Recorder()] + list(extra_callbacks),
                               spec.get("trainer", {}))
        try:
            trainer.fit(w.solver, ckpt_path=ckpt_path)
        except SimCrash as ex:
            out["crashed"] = str(ex)
        out.update({"world": w, "trainer": trainer, "names": [n for n, _ in tensors], "init": init,
                    "states": states, "lrs": lrs, "val_marks": val_marks, "calls": calls,
                    "final": snapshot(tensors), "draws": sim.seq, "digest": sim.digest(),
                    "fired": dict(sim.fired), "global_step": trainer.global_step})
        try:
            out["opt_state"] = trainer.optimizers[0].state_dict() if trainer.optimizers else None
            cfgs = trainer.lr_scheduler_configs
            out["last_epoch"] = cfgs[0].scheduler.last_epoch if cfgs else None
        except Exception:
            out["opt_state"] = None
            out["last_epoch"] = None
    return out


def close(a, b, rtol=1e-4, atol=1e-6):
    return a.shape == b.shape and torch.allclose(a, b, rtol=rtol, atol=atol, equal_nan=True)


def same(a, b):
    """Bitwise equality that also holds for diverged (NaN) runs."""
    return a.shape == b.shape and torch.allclose(a, b, rtol=0, atol=0, equal_nan=True)


# ------------------------------------------------------------------- C07
def run_c07(case):
    spec = case["spec"]
    out, stats = [], {}
    try:
        if case.get("prelude"):
            # an earlier, unrelated training in the same process (other lr, other optimizer class)
            run_solver(case["prelude"], case["rng"] + 1, None, record=False)
            stats["preludes"] = 1
        ref = run_reference(spec, case["rng"], case.get("fault"))
        sol = run_solver(spec, case["rng"], case.get("fault"))
    except Exception as ex:
        return _rec(case, [viol("C07", "run", "raises:" + type(ex).__name__, innermost_site(ex.__traceback__),
                                msg=traceback.format_exc()[-300:])], stats, 0, {})
    N = spec["N"]
    if sol["names"] != ref["names"]:
        out.append(viol("HARNESS", "traversal", "names-differ", ""))
    if len(sol["states"]) != N:
        out.append(viol("C07", "steps", "number-of-optimisation-steps", "", got=len(sol["states"]), want=N))
    n_cmp = 0
    for t in range(min(N, len(sol["states"]))):
        for name, a, b in zip(ref["names"], sol["states"][t], ref["states"][t]):
            n_cmp += 1
            if not close(a, b):
                out.append(viol("C07", "state", "learnable-state-differs-from-reference-loop", "",
                                step=t, tensor=name, max_abs=float((a - b).abs().max())))
                break
        else:
            if abs(sol["lrs"][t] - ref["lrs"][t]) > 1e-12 * max(1, abs(ref["lrs"][t])):
                out.append(viol("C07", "scheduler", "learning-rate-differs", "", step=t,
                                got=sol["lrs"][t], want=ref["lrs"][t]))
                break
            continue
        break
    stats["tensor_comparisons"] = n_cmp
    # (b) the same tensors moved
    if sol["states"] and ref["states"]:
        moved_a = [not torch.equal(i, f) for i, f in zip(sol["init"], sol["states"][-1])]
        moved_b = [not torch.equal(i, f) for i, f in zip(ref["init"], ref["states"][-1])]
        if moved_a != moved_b:
            never = [n for n, ma, mb in zip(ref["names"], moved_a, moved_b) if mb and not ma]
            out.append(viol("C07", "coverage", "learnable-tensor-never-optimised", "", tensors=never[:4]))
    if sol["draws"] != ref["draws"]:
        out.append(viol("C07", "draws", "library-consumed-different-number-of-draws", "",
                        got=sol["draws"], want=ref["draws"]))
    if sol["last_epoch"] != ref["last_epoch"]:
        out.append(viol("C07", "scheduler", "scheduler-step-count-differs", "", got=sol["last_epoch"],
                        want=ref["last_epoch"]))
    # (c) each training condition once per step with the step index
    n_train = len(spec["conds"])
    tr_calls = [(i, it) for i, it in sol["calls"] if i < n_train]
    want = [(i, t) for t in range(N) for i in range(n_train)]
    if tr_calls != want:
        out.append(viol("C07", "schedule", "conditions-not-evaluated-once-per-step-with-step-index", "",
                        got=tr_calls[:6], want=want[:6], n_got=len(tr_calls), n_want=len(want)))
    val_calls = [(i, it) for i, it in sol["calls"] if i >= n_train]
    stats["val_calls"] = len(val_calls)
    # (d) validation never changes learnable state
    marks = sol["val_marks"]
    for j in range(0, len(marks) - 1, 2):
        s, e = marks[j], marks[j + 1]
        if s[0] == "start" and e[0] == "end":
            stats["validations"] = stats.get("validations", 0) + 1
            for name, a, b in zip(sol["names"], s[2], e[2]):
                if not same(a, b):
                    out.append(viol("C07", "validation", "validation-changed-learnable-state", "", tensor=name))
                    break
    # adaptive point weights ascend
    for i, cs in enumerate(spec["conds"]):
        no_decay = spec["opt"]["cls"] != "AdamW" and not spec["opt"].get("args", {}).get("weight_decay")
        if cs["kind"] == "adaptw" and sol["states"] and no_decay:
            idx = [k for k, n in enumerate(sol["names"]) if n.startswith("cond%d" % i) and "adaptive_layer" in n]
            for k in idx:
                if (sol["states"][-1][k] < sol["init"][k] - 1e-7).any():
                    out.append(viol("C07", "adaptive-weights", "point-weights-descended", "", tensor=sol["names"][k]))
                stats["adaptive_checked"] = 1
    return _rec(case, out, stats, N, {"draws": sol["draws"], "fired": sol["fired"], "digest": sol["digest"]})


def _rec(case, out, stats, steps, sim):
    spec = case["spec"]
    f = {"cell": "%s|%s|%s|val%d|%s" % ("+".join(c["kind"] for c in spec["conds"]), spec["opt"]["cls"],
                                         (spec["opt"].get("sched") or {}).get("cls"), len(spec.get("val", [])),
                                         "+".join(sorted(k for k, v in spec.get("trainer", {}).items() if v))),
         "faulty": bool(case.get("fault"))}
    rec = {"violations": out, "stats": stats, "steps": steps, "rows": None, "features": f,
           "sim": {"fired": sim.get("fired", {}), "digest": sim.get("digest"), "draw_calls": sim.get("draws", 0),
                   "ops": steps, "site_calls": {}},
           "digest_extra": [len(out)]}
    rec["nontrivial"] = steps > 0
    rec["key"] = "%s|N%d|%s" % (f["cell"], spec["N"], "+".join(sorted(sim.get("fired", {}))))
    rec["outcome"] = {"steps": steps, "violations": len(out)}
    return rec


# ------------------------------------------------------------------- C19
HOOKS = ("batch_start", "before_optimizer_step", "batch_end_before_ckpt", "batch_end_after_ckpt")


def crash_callback(k, hook):
    import pytorch_lightning as pl

    class Crash(pl.Callback):
        def on_train_batch_start(self, trainer, pl_module, batch, batch_idx):
            if hook == "batch_start" and batch_idx == k:
                raise SimCrash("crash at batch %d before %s" % (k, hook))

        def on_before_optimizer_step(self, trainer, pl_module, optimizer):
            if hook == "before_optimizer_step" and trainer.fit_loop.epoch_loop.batch_idx == k:
                raise SimCrash("crash at batch %d %s" % (k, hook))

        def on_train_batch_end(self, trainer, pl_module, outputs, batch, batch_idx):
            if hook.startswith("batch_end") and batch_idx == k:
                raise SimCrash("crash at batch %d %s" % (k, hook))
    return Crash()


def opt_states_equal(a, b):
    if a is None or b is None:
        return a is b
    if a["param_groups"] != b["param_groups"]:
        return False
    if a["state"].keys() != b["state"].keys():
        return False
    for k in a["state"]:
        for kk in a["state"][k]:
            x, y = a["state"][k][kk], b["state"][k].get(kk)
            if isinstance(x, torch.Tensor):
                if not (isinstance(y, torch.Tensor) and same(x.float(), y.float())):
                    return False
            elif x != y:
                return False
    return True


def run_c19(case):
    """One configuration; case['crashes'] lists the crash schedule(s) to run:
    each schedule is a list of (k, hook) crash points applied to successive restarts."""
    import torchphysics as tp
    spec = case["spec"]
    out, stats = [], {}
    N = spec["N"]
    c_int, w_int = case["ckpt_interval"], case["weight_interval"]
    root = tempfile.mkdtemp(prefix="simverif_c19_", dir="/dev/shm" if os.path.isdir("/dev/shm") else None)
    steps = 0
    try:
        # ---------------- uninterrupted run with both callbacks
        d0 = os.path.join(root, "full")
        os.makedirs(d0)

        def cbs(d, world_model_getter):
            return [tp.utils.TrainerStateCheckpoint(d, "state", check_interval=c_int)]

        class Late:
            pass
        full_holder = {}

        def run(d, crash=None, ckpt=None, init_seed=None, order="ckpt_first"):
            sim_cbs = []
            ck = tp.utils.TrainerStateCheckpoint(d, "state", check_interval=c_int)
            first, extra = [], []
            if crash is not None:
                cb = crash_callback(*crash)
                if crash[1] == "batch_end_before_ckpt":
                    first = [cb]
                    extra = [ck]
                else:
                    extra = [ck, cb]
            else:
                extra = [ck]
            return ck, first, extra

        # world for weight callback needs the model object: build inside run_solver -> use a factory callback
        import pytorch_lightning as pl

        class WeightSaverFactory(pl.Callback):
            """Creates the real WeightSaveCallback for the world's model at setup and forwards hooks."""
            def __init__(self, d):
                self.d = d
                self.inner = None
                self.before = None
                self.batch_start_states = {}

            def setup(self, trainer, pl_module, stage=None):
                model = pl_module.train_conditions[0].module if hasattr(pl_module.train_conditions[0], "module") else None
                self.model = model
                self.inner = tp.utils.WeightSaveCallback(model, self.d, "w", check_interval=w_int,
                                                         save_initial_model=case.get("save_initial", True),
                                                         save_final_model=case.get("save_final", True))

            def on_train_start(self, trainer, pl_module):
                self.before = {k: v.detach().clone() for k, v in self.model.state_dict().items()}
                self.inner.on_train_start(trainer, pl_module)

            def on_train_batch_start(self, trainer, pl_module, batch, batch_idx):
                self.batch_start_states[batch_idx] = {k: v.detach().clone() for k, v in self.model.state_dict().items()}
                self.inner.on_train_batch_start(trainer, pl_module, batch, batch_idx)

            def on_train_end(self, trainer, pl_module):
                self.after = {k: v.detach().clone() for k, v in self.model.state_dict().items()}
                self.inner.on_train_end(trainer, pl_module)

        ws = WeightSaverFactory(d0)
        ck, first, extra = run(d0)
        full = run_solver(spec, case["rng"], None, extra_callbacks=extra + [ws], callbacks_first=first)
        steps += N
        if full["crashed"] or len(full["states"]) != N:
            out.append(viol("HARNESS", "c19", "uninterrupted-run-incomplete", ""))
            return _rec19(case, out, stats, steps)
        # ---------------- weight files
        fresh = build_world(spec, spec["init"] + 7)
        fm = fresh.models[spec["conds"][0].get("model", 0)]
        files = {}
        for tag in ("init", "min_loss", "final"):
            p = os.path.join(d0, "w_%s.pt" % tag)
            if os.path.exists(p):
                try:
                    sd = torch.load(p)
                    fm.load_state_dict(sd, strict=True)
                    files[tag] = {k: v.clone() for k, v in fm.state_dict().items()}
                except Exception as ex:
                    out.append(viol("C19", "weight-file", "does-not-load:" + tag, "", msg=str(ex)[:120]))
        stats["weight_files"] = len(files)

        def same_sd(a, b):
            return a.keys() == b.keys() and all(same(a[k], b[k]) for k in a)
        if case.get("save_initial", True):
            if "init" not in files:
                out.append(viol("C19", "weight-file", "missing:init", ""))
            elif not same_sd(files["init"], ws.before):
                out.append(viol("C19", "weight-file", "init-file-is-not-the-model-before-training", ""))
        if case.get("save_final", True):
            if "final" not in files:
                out.append(viol("C19", "weight-file", "missing:final", ""))
            elif not same_sd(files["final"], ws.after):
                out.append(viol("C19", "weight-file", "final-file-is-not-the-model-after-training", ""))
        if "min_loss" in files:
            cands = [b for b in ws.batch_start_states if b > 0 and w_int > 0 and (b - 1) % w_int == 0]
            if not any(same_sd(files["min_loss"], ws.batch_start_states[b]) for b in cands):
                out.append(viol("C19", "weight-file", "min-loss-file-is-not-a-checked-step", "", checked=cands[:8]))
        elif w_int > 0 and N > 1:
            out.append(viol("C19", "weight-file", "missing:min_loss", ""))
        # ---------------- two stages in one process with the SAME callback objects
        # (resume in a notebook / Adam-then-second-stage workflow: trainer.fit twice, callbacks reused)
        if case.get("two_stage", True) and N >= 2:
            d2 = os.path.join(root, "two")
            os.makedirs(d2)
            sim2 = SimRNG(case["rng"], fault=None)
            with sim2:
                w2 = build_world(spec, spec["init"])
                model2 = w2.train[0].module if hasattr(w2.train[0], "module") else None
                cb_w = tp.utils.WeightSaveCallback(model2, d2, "w", check_interval=w_int,
                                                   save_initial_model=case.get("save_initial", True),
                                                   save_final_model=True)
                cb_c = tp.utils.TrainerStateCheckpoint(d2, "state", check_interval=c_int)
                N1 = max(1, N // 2)
                tr1 = make_trainer(N1, [cb_c, cb_w], spec.get("trainer", {}))
                tr1.fit(w2.solver)
                mid = {k: v.detach().clone() for k, v in model2.state_dict().items()}
                ck2 = os.path.join(d2, "state.ckpt")
                tr2 = make_trainer(N, [cb_c, cb_w], spec.get("trainer", {}))
                tr2.fit(w2.solver, ckpt_path=ck2 if os.path.exists(ck2) else None)
                steps += N
                end = {k: v.detach().clone() for k, v in model2.state_dict().items()}
                stats["two_stage"] = 1
                try:
                    fm2 = build_world(spec, spec["init"] + 11).models[spec["conds"][0].get("model", 0)]
                    fm2.load_state_dict(torch.load(os.path.join(d2, "w_final.pt")), strict=True)
                    got = {k: v.clone() for k, v in fm2.state_dict().items()}
                    if not same_sd(got, end):
                        out.append(viol("C19", "weight-file", "final-file-after-second-fit-is-not-the-model-after-training", "",
                                        equals_model_after_first_fit=bool(same_sd(got, mid))))
                except Exception as ex:
                    out.append(viol("C19", "weight-file", "does-not-load:final-after-second-fit", "", msg=str(ex)[:120]))
        # ---------------- crash schedules
        for sched_i, schedule in enumerate(case["crashes"]):
            d = os.path.join(root, "c%d" % sched_i)
            os.makedirs(d)
            ckpt = None
            res = None
            ok_to_compare = True
            init_seed = spec["init"]
            for leg, crash in enumerate(list(schedule) + [None]):
                ck, first, extra = run(d, crash=tuple(crash) if crash else None)
                ws_leg = WeightSaverFactory(d)          # users keep their weight saver when they resume
                res = run_solver(spec, case["rng"], None, extra_callbacks=extra + [ws_leg], callbacks_first=first,
                                 ckpt_path=ckpt, init_seed=init_seed, record=False)
                steps += N
                stats["fits"] = stats.get("fits", 0) + 1
                if crash is not None:
                    if not res["crashed"]:
                        # the crash point lies beyond the end or was never reached
                        stats["crash_not_reached"] = stats.get("crash_not_reached", 0) + 1
                        break
                    stats["crashes"] = stats.get("crashes", 0) + 1
                    k, hook = crash
                    path = os.path.join(d, "state.ckpt")
                    # (a) which checkpoint must have survived
                    last_done = k if hook == "batch_end_after_ckpt" else k - 1
                    js = [j for j in range(0, last_done + 1) if j % c_int == 0]
                    if ckpt is not None:
                        pass
                    if not js and ckpt is None:
                        if os.path.exists(path):
                            out.append(viol("C19", "checkpoint", "checkpoint-exists-before-first-interval", ""))
                        ok_to_compare = False
                        break
                    if os.path.exists(path):
                        gs = torch.load(path, weights_only=False)["global_step"]
                        want_gs = (js[-1] + 1) if js else None
                        if want_gs is not None and gs < want_gs and ckpt is None:
                            out.append(viol("C19", "checkpoint", "newest-checkpoint-is-older-than-expected", "",
                                            global_step=gs, want=want_gs, crash=[k, hook]))
                        ckpt = path
                    else:
                        out.append(viol("C19", "checkpoint", "no-checkpoint-file-after-interval", "", crash=[k, hook]))
                        ok_to_compare = False
                        break
                    init_seed = spec["init"] + 100 + leg   # differently initialised objects at restart
            if ok_to_compare and res is not None and not res["crashed"]:
                stats["resumes_compared"] = stats.get("resumes_compared", 0) + 1
                pf = os.path.join(d, "w_final.pt")
                if case.get("save_final", True) and hasattr(ws_leg, "after"):
                    try:
                        fm.load_state_dict(torch.load(pf), strict=True)
                        if not same_sd({k: v.clone() for k, v in fm.state_dict().items()}, ws_leg.after):
                            out.append(viol("C19", "weight-file", "final-file-of-resumed-run-is-not-the-model-after-training", "",
                                            schedule=list(schedule)))
                    except Exception as ex:
                        out.append(viol("C19", "weight-file", "does-not-load:final-of-resumed-run", "", msg=str(ex)[:120]))
                for name, a, b in zip(full["names"], res["final"], full["final"]):
                    if not same(a, b):
                        out.append(viol("C19", "resume", "learnable-state-differs-from-uninterrupted-run", "",
                                        tensor=name, max_abs=float((a - b).abs().max()), schedule=list(schedule)))
                        break
                else:
                    if not opt_states_equal(res["opt_state"], full["opt_state"]):
                        out.append(viol("C19", "resume", "optimizer-state-differs-from-uninterrupted-run", "",
                                        schedule=list(schedule)))
                    elif res["last_epoch"] != full["last_epoch"]:
                        out.append(viol("C19", "resume", "scheduler-state-differs", "", got=res["last_epoch"],
                                        want=full["last_epoch"]))
    except Exception as ex:
        out.append(viol("C19", "run", "raises:" + type(ex).__name__, innermost_site(ex.__traceback__),
                        msg=traceback.format_exc()[-1600:]))
    finally:
        shutil.rmtree(root, ignore_errors=True)
    return _rec19(case, out, stats, steps)


def _rec19(case, out, stats, steps):
    spec = case["spec"]
    f = {"cell": "%s|%s|%s|c%d|w%d" % ("+".join(c["kind"] for c in spec["conds"]), spec["opt"]["cls"],
                                        (spec["opt"].get("sched") or {}).get("cls"), case["ckpt_interval"],
                                        case["weight_interval"]), "faulty": True}
    kinds = sorted({h for s in case["crashes"] for _, h in s})
    rec = {"violations": out, "stats": stats, "steps": steps, "rows": None, "features": f,
           "sim": {"fired": {"crash:" + h: sum(1 for s in case["crashes"] for _, hh in s if hh == h) for h in kinds},
                   "digest": None, "draw_calls": 0, "ops": steps, "site_calls": {}},
           "digest_extra": [len(out), stats.get("resumes_compared", 0), stats.get("crashes", 0)]}
    rec["nontrivial"] = stats.get("resumes_compared", 0) > 0 or stats.get("weight_files", 0) > 0
    rec["key"] = "%s|N%d|%d" % (f["cell"], spec["N"], len(case["crashes"]))
    rec["outcome"] = dict(stats)
    return rec
