"""C14, DeepONet leg: several physics-informed DeepONet conditions that share a
network and/or a function set, driven through the Solver's protocol (training
steps evaluate every training condition with the step number, validation steps
evaluate every validation condition with iteration=None, optimiser steps change
the weights in between).  Two oracles per evaluation:

  solo world   the same condition built alone by the same recipe (own network
               with the same initial weights, own function set), receiving the
               same evaluations and the same weight changes;
  direct       the loss recomputed outside the condition: the input functions
               evaluated by hand at the discretisation points, fixed on a twin
               network (same weights) through the public fix_branch_input, the
               residual and the mean square computed in plain torch.

The function sets use a DataSampler for their parameters, so the loss is a
function of (weights, function family, trunk points) alone and both oracles are
exact."""
import math
import traceback

import torch

from .core.seed import H
from .core.simrng import SimRNG
from .geosim import viol, innermost_site


def fam(name):
    if name == "lin":
        return lambda k, t: k * t
    if name == "sin":
        return lambda k, t: 3.0 + torch.sin(5.0 * k * t)
    if name == "quad":
        return lambda k, t: k * t * t - 1.0
    raise ValueError(name)


class World:
    pass


def _spaces(udim=1):
    import torchphysics as tp
    return tp.spaces.R1("t"), tp.spaces.R1("k"), tp.spaces.R1("f"), (tp.spaces.R1("u") if udim == 1 else tp.spaces.R2("u"))


def make_net(case, spec, idx):
    import torchphysics as tp
    T, K, F, U = _spaces(int(case.get("udim", 1)))
    torch.manual_seed((int(case["init"]) + 7919 * idx) % (2 ** 31))
    dom = tp.domains.Interval(T, 0.0, 1.0)
    fspace = tp.spaces.FunctionSpace(dom, F)
    disc_t = torch.tensor(case["disc"], dtype=torch.float32).reshape(-1, 1)
    trunk = tp.models.FCTrunkNet(T, hidden=tuple(spec["thidden"]))
    branch = tp.models.FCBranchNet(fspace, discretization_sampler=tp.samplers.DataSampler({"t": disc_t}),
                                   hidden=tuple(spec["bhidden"]))
    return tp.models.DeepONet(trunk, branch, U, output_neurons=int(spec["m"]) * int(case.get("udim", 1)))


def make_fset(case, spec):
    import torchphysics as tp
    T, K, F, U = _spaces()
    fspace = tp.spaces.FunctionSpace(tp.domains.Interval(T, 0.0, 1.0), F)
    if spec.get("kn"):
        # parameters drawn afresh for every new iteration; the draws are recorded for the direct oracle
        psmp = tp.samplers.RandomUniformSampler(tp.domains.Interval(K, 0.1, 1.5), n_points=int(spec["kn"]))
    else:
        psmp = tp.samplers.DataSampler({"k": torch.tensor(spec["ks"], dtype=torch.float32).reshape(-1, 1)})
    drawn = []
    orig = psmp.sample_points

    def recording(*a, **k):
        p = orig(*a, **k)
        drawn.append(p.as_tensor.detach().clone().reshape(-1, 1))
        return p
    psmp.sample_points = recording
    fs = tp.domains.CustomFunctionSet(fspace, psmp, fam(spec["fam"]))
    fs._verif_drawn = drawn
    return fs


def make_sampler(spec):
    import torchphysics as tp
    T, K, F, U = _spaces()
    if spec["kind"] == "data":
        return tp.samplers.DataSampler({"t": torch.tensor(spec["pts"], dtype=torch.float32).reshape(-1, 1)})
    dom = tp.domains.Interval(T, 0.0, 1.0)
    if spec["kind"] == "grid":
        return tp.samplers.GridSampler(dom, n_points=int(spec["n"])).make_static()
    return tp.samplers.RandomUniformSampler(dom, n_points=int(spec["n"]))


def make_resid(cs):
    import torchphysics as tp
    c = float(cs.get("c", 0.5))
    if cs["resid"] == "u_minus_f":
        return lambda u, f: u - f
    if cs["resid"] == "u_minus_c":
        return lambda u: u - c
    if cs["resid"] == "du_minus_f":
        return lambda u, t, f: tp.utils.grad(u, t) - c * f
    raise ValueError(cs["resid"])


def make_cond(cs, net, fset, idx):
    import torchphysics as tp
    smp = make_sampler(cs["sampler"])
    drawn = []
    orig = smp.sample_points

    def recording(*a, **k):
        p = orig(*a, **k)
        drawn.append(p.as_tensor.detach().clone().reshape(-1))
        return p
    smp.sample_points = recording      # the trunk points of every evaluation, for the direct oracle
    smp._verif_drawn = drawn
    res = make_resid(cs)
    name = "don%d" % idx
    if cs.get("cls") == "single":
        from torchphysics.problem.conditions.deeponet_condition import DeepONetSingleModuleCondition
        return DeepONetSingleModuleCondition(net, fset, smp, res, error_fn=torch.square, reduce_fn=torch.mean, name=name)
    return tp.conditions.PIDeepONetCondition(net, fset, smp, res, name=name)


def perturb(net, step):
    """A simulated optimiser step: the same deterministic change of every weight in every world."""
    with torch.no_grad():
        for j, p in enumerate(net.parameters()):
            idx = torch.arange(p.numel(), dtype=torch.float32).reshape(p.shape)
            p.add_(0.05 * torch.sin(idx * 0.7 + j + 1.3 * step))


def direct_loss(case, cs, net, net_spec, net_idx, fspec, pts, ks=None):
    """The loss recomputed outside the condition (None where the trunk points are not known in advance)."""
    import torchphysics as tp
    T, K, F, U = _spaces()
    if pts is None:
        return None
    twin = make_net(case, net_spec, net_idx)
    twin.load_state_dict(net.state_dict())
    if ks is None:
        ks = torch.tensor(fspec["ks"], dtype=torch.float32).reshape(-1, 1)
    disc_t = torch.tensor(case["disc"], dtype=torch.float32).reshape(-1, 1)
    f = fam(fspec["fam"])
    twin.fix_branch_input(f(ks[:, None, :], disc_t[None, :, :]))
    x = pts.reshape(1, -1, 1).repeat(len(ks), 1, 1).clone()
    if cs["resid"] == "du_minus_f":
        x.requires_grad_(True)
    u = twin(tp.spaces.Points(x, T)).as_tensor
    fx = f(ks[:, None, :], pts.reshape(1, -1, 1))
    c = float(cs.get("c", 0.5))
    if cs["resid"] == "u_minus_f":
        res = u - fx
    elif cs["resid"] == "u_minus_c":
        res = u - c
    else:
        du = torch.autograd.grad(u.sum(), x, create_graph=False)[0]
        res = du - c * fx
    if cs.get("cls") != "single":
        # PIDeepONetCondition (documented): mean over functions and points of the squared residual summed over components
        return float(torch.mean(torch.sum(res.detach() ** 2, dim=-1)))
    return float(torch.mean(res.detach() ** 2))


def run_c14_don(case):
    out, stats, log = [], {}, []
    sim = SimRNG(case["rng"], fault=None)
    conds = case["conds"]
    with sim:
        try:
            # ---------------- shared world
            nets = [make_net(case, ns, j) for j, ns in enumerate(case["nets"])]
            fsets = [make_fset(case, fs) for fs in case["fsets"]]
            shared = [make_cond(cs, nets[cs["net"]], fsets[cs["fset"]], i) for i, cs in enumerate(conds)]
            # ---------------- solo worlds (the same recipe, alone)
            solo = []
            for i, cs in enumerate(conds):
                w = World()
                w.net = make_net(case, case["nets"][cs["net"]], cs["net"])
                w.fset = make_fset(case, case["fsets"][cs["fset"]])
                w.cond = make_cond(cs, w.net, w.fset, i)
                solo.append(w)
            it = 0
            nopt = 0

            def evaluate(i, iteration, step):
                cs = conds[i]
                res = []
                for which, cond in (("shared", shared[i]), ("solo", solo[i].cond)):
                    sim.reseed(H(case["rng"], "op", step, i))
                    sim.begin_op()
                    try:
                        res.append(float(cond(device="cpu", iteration=iteration)))
                    except Exception as ex:
                        res.append(("raises", type(ex).__name__, innermost_site(ex.__traceback__), str(ex)[:120]))
                la, lb = res
                drawn = shared[i].input_sampler._verif_drawn
                pts = drawn[-1] if drawn else None
                stats["evals_judged"] = stats.get("evals_judged", 0) + 1
                log.append(["eval", i, iteration, la if isinstance(la, float) else list(la[:2])])
                role = "val" if iteration is None else "train"
                if isinstance(la, float) != isinstance(lb, float):
                    bad = la if not isinstance(la, float) else lb
                    out.append(viol("C14", "isolation", "condition-fails-only-when-it-shares-objects"
                                    if isinstance(lb, float) else "condition-fails-only-alone", "deeponet:" + bad[2],
                                    ckind="deeponet", role=role, msg=bad[3]))
                    return
                if not isinstance(la, float):
                    return
                if not math.isclose(la, lb, rel_tol=1e-5, abs_tol=1e-8):
                    out.append(viol("C14", "isolation", "loss-differs-from-solo-world", "deeponet", shared=la, solo=lb, role=role,
                                    cond=i, iteration=iteration))
                    return
                try:
                    want = direct_loss(case, cs, nets[cs["net"]], case["nets"][cs["net"]], cs["net"],
                                       case["fsets"][cs["fset"]], pts)
                except Exception:
                    want = None
                if want is not None:
                    stats["direct_judged"] = stats.get("direct_judged", 0) + 1
                    if not math.isclose(la, want, rel_tol=1e-4, abs_tol=1e-7):
                        out.append(viol("C14", "isolation", "loss-is-not-that-of-its-own-function-set-and-current-weights", "deeponet",
                                        got=la, want=want, role=role, cond=i, iteration=iteration))

            for step, op in enumerate(case["history"]):
                if op["op"] == "train":
                    for i in op["order"]:
                        evaluate(i, it, step)
                    it += 1
                elif op["op"] == "val":
                    for i in op["order"]:
                        evaluate(i, None, step)
                elif op["op"] == "opt":
                    nopt += 1
                    for n_ in nets:
                        perturb(n_, nopt)
                    for w in solo:
                        perturb(w.net, nopt)
                    log.append(["opt"])
            stats["constructed"] = len(conds)
        except Exception as ex:
            out.append(viol("C14", "run", "raises:" + type(ex).__name__, innermost_site(ex.__traceback__),
                            msg=traceback.format_exc()[-400:]))
    pairs = {(c["net"], c["fset"]) for c in conds}
    feats = {"cell": "deeponet|n%d|f%d|c%d" % (len(case["nets"]), len(case["fsets"]), len(conds)), "faulty": False,
             "kinds": "deeponet", "shares_dict": False, "any_static": False,
             "net_with_two_fsets": any(len({f for n, f in pairs if n == n0}) > 1 for n0, _ in pairs),
             "fset_on_two_nets": any(len({n for n, f in pairs if f == f0}) > 1 for _, f0 in pairs),
             "has_val": any(op["op"] == "val" for op in case["history"])}
    rec = {"violations": out, "stats": stats, "sim": sim.summary(), "steps": len(case["history"]), "rows": None,
           "features": feats, "digest_extra": log}
    rec["nontrivial"] = stats.get("evals_judged", 0) > 0
    rec["key"] = "%s|%s" % (feats["cell"], "".join(op["op"][0] for op in case["history"]))
    rec["outcome"] = log[:8]
    return rec


def run_c04_don(case):
    """C04, DeepONet conditions: the loss of one physics-informed DeepONet condition against the documented
    reduction recomputed outside the condition on exactly the trunk points its sampler produced."""
    out, stats, log = [], {}, []
    sim = SimRNG(case["rng"], fault=None)
    cs = case["conds"][0]
    with sim:
        try:
            net = make_net(case, case["nets"][0], 0)
            fset = make_fset(case, case["fsets"][0])
            cond = make_cond(cs, net, fset, 0)
            neighbour = None
            if len(case["fsets"]) > 1:
                neighbour = make_cond(dict(cs, sampler={"kind": "data", "pts": [0.3, 0.7]}, resid="u_minus_f"), net,
                                      make_fset(case, case["fsets"][1]), 1)
            for step in range(int(case.get("evals", 2))):
                sim.reseed(H(case["rng"], "op", step))
                sim.begin_op()
                la = float(cond(device="cpu", iteration=step))
                pts = cond.input_sampler._verif_drawn[-1]
                ks = fset._verif_drawn[-1] if fset._verif_drawn else None       # the input functions of THIS evaluation
                want = direct_loss(case, cs, net, case["nets"][0], 0, case["fsets"][0], pts, ks=ks)
                stats["evals_judged"] = stats.get("evals_judged", 0) + 1
                log.append(["eval", step, la])
                if not math.isclose(la, want, rel_tol=1e-4, abs_tol=1e-7):
                    out.append(viol("C04", "reduce", "deeponet-loss-is-not-the-documented-mean", cs.get("cls", "pi"),
                                    got=la, want=want, functions=int(len(ks)) if ks is not None else None, points=int(len(pts)),
                                    udim=int(case.get("udim", 1)), eval=step))
                    break
                if neighbour is not None and not case["fsets"][0].get("kn"):
                    # a second condition on the SAME network with another function set is evaluated in the same
                    # iteration (as a Solver does), then this one again: still its own functions, its own loss
                    sim.reseed(H(case["rng"], "op", step, "neighbour"))
                    float(neighbour(device="cpu", iteration=step))
                    sim.reseed(H(case["rng"], "op", step, "again"))
                    lb = float(cond(device="cpu", iteration=step))
                    pts2 = cond.input_sampler._verif_drawn[-1]
                    want2 = direct_loss(case, cs, net, case["nets"][0], 0, case["fsets"][0], pts2, ks=ks)
                    stats["evals_judged"] = stats.get("evals_judged", 0) + 1
                    if not math.isclose(lb, want2, rel_tol=1e-4, abs_tol=1e-7):
                        out.append(viol("C04", "reduce", "deeponet-loss-changes-after-a-neighbour-condition-in-the-same-iteration",
                                        cs.get("cls", "pi"), got=lb, want=want2, eval=step))
                        break
                perturb(net, step + 1)
        except Exception as ex:
            out.append(viol("C04", "run", "raises:" + type(ex).__name__, innermost_site(ex.__traceback__),
                            msg=traceback.format_exc()[-400:]))
    feats = {"cell": "deeponet|%s|%s|%s|u%d" % (cs.get("cls", "pi"), cs["resid"], cs["sampler"]["kind"], int(case.get("udim", 1))),
             "faulty": False, "kind": "deeponet", "kinds": "deeponet", "static": None, "data_fns": 0}
    rec = {"violations": out, "stats": stats, "sim": sim.summary(), "steps": int(case.get("evals", 2)), "rows": None,
           "features": feats, "digest_extra": log}
    rec["nontrivial"] = stats.get("evals_judged", 0) > 0
    rec["key"] = "%s|F%s|N%s" % (feats["cell"], case["fsets"][0].get("kn") or len(case["fsets"][0].get("ks", [])),
                                 cs["sampler"].get("n") or len(cs["sampler"].get("pts", [])))
    rec["outcome"] = log[:8]
    return rec
