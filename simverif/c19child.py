"""Child process of the fresh-interpreter crash/restart legs of C19.

  python -m simverif.c19child full   <case.json> <dir>
  python -m simverif.c19child crash  <case.json> <dir> <k> <hook>      (dies with os._exit(17): no cleanup, no atexit)
  python -m simverif.c19child resume <case.json> <dir> <init_seed>

'full' and 'resume' write <dir>/final_<mode>.pt with the learnable state, optimizer state and scheduler step count."""
import json
import os
import sys

import torch


def main():
    mode, case_path, d = sys.argv[1], sys.argv[2], sys.argv[3]
    torch.set_num_threads(1)
    import torchphysics as tp
    import pytorch_lightning as pl
    from . import trainsim
    case = json.load(open(case_path))
    spec = case["spec"]
    ck = tp.utils.TrainerStateCheckpoint(d, "state", check_interval=case["ckpt_interval"])
    first, extra = [], [ck]
    if mode == "crash":
        k, hook = int(sys.argv[4]), sys.argv[5]

        class Die(pl.Callback):
            def _die(self):
                sys.stdout.flush()
                os._exit(17)

            def on_train_batch_start(self, trainer, pl_module, batch, batch_idx):
                if hook == "batch_start" and batch_idx == k:
                    self._die()

            def on_before_optimizer_step(self, trainer, pl_module, optimizer):
                if hook == "before_optimizer_step" and trainer.fit_loop.epoch_loop.batch_idx == k:
                    self._die()

            def on_train_batch_end(self, trainer, pl_module, outputs, batch, batch_idx):
                if hook.startswith("batch_end") and batch_idx == k:
                    self._die()
        if hook == "batch_end_before_ckpt":
            first = [Die()]
        else:
            extra = [ck, Die()]
    ckpt = os.path.join(d, "state.ckpt") if mode == "resume" else None
    init = int(sys.argv[4]) if mode == "resume" else None
    res = trainsim.run_solver(spec, case["rng"], None, extra_callbacks=extra, callbacks_first=first,
                              ckpt_path=ckpt, init_seed=init, record=False)
    torch.save({"names": res["names"], "final": res["final"], "opt": res["opt_state"], "last_epoch": res["last_epoch"],
                "global_step": res["global_step"]}, os.path.join(d, "final_%s.pt" % mode))
    return 0


if __name__ == "__main__":
    sys.exit(main())
