"""R-geo: the independent geometry reference model (numpy float64).

No torchphysics import.  A domain expression is a JSON-able AST of dicts:

  {"k":"iv",  "var":"x", "a":E, "b":E}
  {"k":"circ","var":"x", "c":[E,E], "r":E}
  {"k":"par", "var":"x", "o":[E,E], "c1":[E,E], "c2":[E,E]}
  {"k":"tri", "var":"x", "o":[E,E], "c1":[E,E], "c2":[E,E]}
  {"k":"sph", "var":"x", "c":[E,E,E], "r":E}
  {"k":"pt",  "var":"x", "dim":d, "p":[E,...]}
  {"k":"poly","var":"x", "verts":[[x,y],...]}            (constants only)
  {"k":"union","a":N,"b":N,"disjoint":bool}  {"k":"cut","a":N,"b":N,"contained":bool}
  {"k":"inter","a":N,"b":N}   {"k":"prod","a":N,"b":N}
  {"k":"transl","d":N,"v":[E,...]}   {"k":"rot","d":N,"ang":E,"around":[E,E]}
  {"k":"bnd","d":N}  {"k":"bleft","d":iv}  {"k":"bright","d":iv}

A scalar expression E is a number or ["aff",a,b,var] (a+b*var),
["sin",a,b,c,var] (a+b*sin(c*var)), ["aff2",a,b,v1,c,v2].

P (a "row table") is a dict  variable name -> float64 array (rows, dim_of_var)
holding spatial coordinates *and* parameter values of every row.
"""
import math

import numpy as np

TOL_ON = 1e-4
TOL_FAR = 1e-3


# ----------------------------------------------------------------- scalars
def ev(E, P, rows):
    if isinstance(E, (int, float)):
        return np.full(rows, float(E))
    k = E[0]
    if k == "aff":
        return E[1] + E[2] * P[E[3]][:, 0]
    if k == "sin":
        return E[1] + E[2] * np.sin(E[3] * P[E[4]][:, 0])
    if k == "aff2":
        return E[1] + E[2] * P[E[3]][:, 0] + E[4] * P[E[5]][:, 0]
    if k == "aff2d":      # a + b*v1 + c*v2 where v2 has the DEFAULT value E[6] (used when v2 is not supplied)
        return E[1] + E[2] * P[E[3]][:, 0] + E[4] * (P[E[5]][:, 0] if E[5] in P else E[6])
    if k == "affd":       # a + c*v, v with default E[4]
        return E[1] + E[2] * (P[E[3]][:, 0] if E[3] in P else np.full(rows, float(E[4])))
    raise ValueError(E)


def evv(Es, P, rows):
    return np.stack([ev(E, P, rows) for E in Es], axis=1)


def e_vars(E):
    if isinstance(E, (int, float)):
        return set()
    if E[0] == "aff":
        return {E[3]}
    if E[0] == "sin":
        return {E[4]}
    if E[0] == "aff2":
        return {E[3], E[5]}
    if E[0] == "aff2d":
        return {E[3]}          # the REQUIRED variables: a default-valued one is not needed
    if E[0] == "affd":
        return set()
    raise ValueError(E)


def e_opt(E):
    """Default-valued variables of E: name -> default."""
    if isinstance(E, list) and E and E[0] == "aff2d":
        return {E[5]: float(E[6])}
    if isinstance(E, list) and E and E[0] == "affd":
        return {E[3]: float(E[4])}
    return {}


def e_src(E):
    """Python source of E on torch tensors named after the variables."""
    if isinstance(E, (int, float)):
        return repr(float(E))
    if E[0] == "aff":
        return "(%r + %r*%s)" % (float(E[1]), float(E[2]), E[3])
    if E[0] == "sin":
        return "(%r + %r*torch.sin(%r*%s))" % (float(E[1]), float(E[2]), float(E[3]), E[4])
    if E[0] in ("aff2", "aff2d"):
        return "(%r + %r*%s + %r*%s)" % (float(E[1]), float(E[2]), E[3], float(E[4]), E[5])
    if E[0] == "affd":
        return "(%r + %r*%s)" % (float(E[1]), float(E[2]), E[3])
    raise ValueError(E)


def e_subst(E, vals):
    """Substitute scalar values for variables (partial evaluation of the AST)."""
    if isinstance(E, (int, float)):
        return E
    if E[0] == "aff":
        return E[1] + E[2] * vals[E[3]] if E[3] in vals else E
    if E[0] == "sin":
        return E[1] + E[2] * math.sin(E[3] * vals[E[4]]) if E[4] in vals else E
    if E[0] == "aff2":
        a, b, v1, c, v2 = E[1:]
        if v1 in vals and v2 in vals:
            return a + b * vals[v1] + c * vals[v2]
        if v1 in vals:
            return ["aff", a + b * vals[v1], c, v2]
        if v2 in vals:
            return ["aff", a + c * vals[v2], b, v1]
        return E
    if E[0] == "aff2d":
        a, b, v1, c, v2, dv = E[1:]
        if v1 in vals and v2 in vals:
            return a + b * vals[v1] + c * vals[v2]
        if v1 in vals:
            # every required name is bound: the library evaluates at once, the optional one takes its default
            return a + b * vals[v1] + c * dv
        if v2 in vals:
            return ["aff", a + c * vals[v2], b, v1]
        return E
    if E[0] == "affd":
        return E[1] + E[2] * vals[E[3]] if E[3] in vals else E
    raise ValueError(E)


_E_KEYS = {"iv": ("a", "b"), "circ": ("r",), "sph": ("r",), "rot": ("ang",)}
_EV_KEYS = {"circ": ("c",), "sph": ("c",), "par": ("o", "c1", "c2"),
            "tri": ("o", "c1", "c2"), "pt": ("p",), "transl": ("v",), "rot": ("around",)}
_CHILD_KEYS = {"union": ("a", "b"), "cut": ("a", "b"), "inter": ("a", "b"),
               "prod": ("a", "b"), "transl": ("d",), "rot": ("d",), "bnd": ("d",),
               "bleft": ("d",), "bright": ("d",)}


def children(node):
    return [node[c] for c in _CHILD_KEYS.get(node["k"], ())]


def own_exprs(node):
    out = []
    for key in _E_KEYS.get(node["k"], ()):
        out.append(node[key])
    for key in _EV_KEYS.get(node["k"], ()):
        out.extend(node[key])
    return out


def subst(node, vals):
    """AST of the domain with the given variables fixed to scalar values."""
    new = dict(node)
    for key in _E_KEYS.get(node["k"], ()):
        new[key] = e_subst(node[key], vals)
    for key in _EV_KEYS.get(node["k"], ()):
        new[key] = [e_subst(E, vals) for E in node[key]]
    for key in _CHILD_KEYS.get(node["k"], ()):
        new[key] = subst(node[key], vals)
    return new


def space(node):
    """Ordered list of (variable, dim) the domain lives in."""
    k = node["k"]
    if k in ("iv",):
        return [(node["var"], 1)]
    if k in ("circ", "par", "tri", "poly"):
        return [(node["var"], 2)]
    if k == "sph":
        return [(node["var"], 3)]
    if k == "pt":
        return [(node["var"], node["dim"])]
    if k == "prod":
        out = list(space(node["a"]))
        for v in space(node["b"]):
            if v not in out:
                out.append(v)
        return out
    if k in ("union", "cut", "inter"):
        return space(node["a"])
    return space(node["d"])


def dim(node):
    return sum(d for _, d in space(node))


def free_vars(node):
    """Variables the expression still needs (its free variables)."""
    k = node["k"]
    out = set()
    for E in own_exprs(node):
        out |= e_vars(E)
    if k == "prod":
        fa, fb = free_vars(node["a"]), free_vars(node["b"])
        return (fa - {v for v, _ in space(node["b"])}) | fb
    for c in children(node):
        out |= free_vars(c)
    return out


def is_boundary(node):
    k = node["k"]
    if k in ("bnd", "bleft", "bright"):
        return True
    if k in ("transl", "rot"):
        return is_boundary(node["d"])
    if k in ("cut", "inter"):
        return is_boundary(node["a"])
    if k == "union":
        return is_boundary(node["a"]) and is_boundary(node["b"])
    if k == "prod":
        return is_boundary(node["a"]) or is_boundary(node["b"])
    return False


def kinds(node):
    out = [node["k"]]
    for c in children(node):
        out.extend(kinds(c))
    return out


def n_nodes(node):
    return 1 + sum(n_nodes(c) for c in children(node))


# ---------------------------------------------------------------- margins
def _rows(P):
    for v in P.values():
        return len(v)
    return 1


def _poly_margin(p, verts):
    """Inside-positive margin of a convex polygon; verts (rows, m, 2), any orientation."""
    m = verts.shape[1]
    a = verts
    b = np.roll(verts, -1, axis=1)
    e = b - a
    area2 = np.sum(a[:, :, 0] * b[:, :, 1] - a[:, :, 1] * b[:, :, 0], axis=1)
    sgn = np.where(area2 >= 0, 1.0, -1.0)
    # inward normal for ccw: (-ey, ex)
    nrm = np.stack([-e[:, :, 1], e[:, :, 0]], axis=2) * sgn[:, None, None]
    ln = np.linalg.norm(nrm, axis=2, keepdims=True)
    nrm = nrm / ln
    d = np.sum((p[:, None, :] - a) * nrm, axis=2)
    return d.min(axis=1)


def _seg_dist(p, a, b):
    ab = b - a
    t = np.clip(np.sum((p - a) * ab, axis=-1) / np.maximum(np.sum(ab * ab, axis=-1), 1e-300), 0, 1)
    return np.linalg.norm(p - (a + t[..., None] * ab), axis=-1)


def _nonconvex_margin(p, verts):
    """Exact signed distance (inside positive) of a simple polygon, verts (m,2)."""
    verts = np.asarray(verts, float)
    a = verts
    b = np.roll(verts, -1, axis=0)
    d = np.min(np.stack([_seg_dist(p, a[i], b[i]) for i in range(len(a))], axis=1), axis=1)
    # crossing number
    x, y = p[:, 0], p[:, 1]
    inside = np.zeros(len(p), bool)
    for i in range(len(a)):
        x1, y1 = a[i]
        x2, y2 = b[i]
        cond = ((y1 > y) != (y2 > y))
        with np.errstate(divide="ignore", invalid="ignore"):
            xin = (x2 - x1) * (y - y1) / (y2 - y1) + x1
        inside ^= cond & (x < xin)
    return np.where(inside, d, -d)


def corners(node, P, rows):
    o = evv(node["o"], P, rows)
    c1 = evv(node["c1"], P, rows)
    c2 = evv(node["c2"], P, rows)
    if node["k"] == "par":
        return np.stack([o, c1, c1 + c2 - o, c2], axis=1)
    return np.stack([o, c1, c2], axis=1)


def _pullback(node, P):
    """Row table with the spatial variable pulled back through the isometry."""
    rows = _rows(P)
    d = node["d"]
    var = space(d)[0][0]
    Q = dict(P)
    if node["k"] == "transl":
        Q[var] = P[var] - evv(node["v"], P, rows)
    else:
        ang = ev(node["ang"], P, rows)
        c = evv(node["around"], P, rows)
        q = P[var] - c
        ca, sa = np.cos(ang), np.sin(ang)
        # inverse rotation
        x = ca * q[:, 0] + sa * q[:, 1]
        y = -sa * q[:, 0] + ca * q[:, 1]
        Q[var] = np.stack([x, y], axis=1) + c
    return Q


def margin(node, P):
    """Sign-correct, 1-Lipschitz, inside-positive margin of a *solid* expression."""
    rows = _rows(P)
    k = node["k"]
    if k == "iv":
        p = P[node["var"]][:, 0]
        return np.minimum(p - ev(node["a"], P, rows), ev(node["b"], P, rows) - p)
    if k in ("circ", "sph"):
        c = evv(node["c"], P, rows)
        return ev(node["r"], P, rows) - np.linalg.norm(P[node["var"]] - c, axis=1)
    if k in ("par", "tri"):
        return _poly_margin(P[node["var"]], corners(node, P, rows))
    if k == "poly":
        m = _nonconvex_margin(P[node["var"]], node["verts"])
        for h in node.get("holes", []):
            m = np.minimum(m, -_nonconvex_margin(P[node["var"]], h))
        return m
    if k == "union":
        return np.maximum(margin(node["a"], P), margin(node["b"], P))
    if k == "inter":
        return np.minimum(margin(node["a"], P), margin(node["b"], P))
    if k == "cut":
        return np.minimum(margin(node["a"], P), -margin(node["b"], P))
    if k == "prod":
        return np.minimum(margin(node["a"], P), margin(node["b"], P))
    if k in ("transl", "rot"):
        return margin(node["d"], _pullback(node, P))
    raise ValueError("margin of non-solid %s" % k)


def dev(node, P):
    """Non-negative deviation of each row from the denoted set (0 = in the set).

    For solids max(0, -margin); for boundaries |margin of the solid|; composites
    of boundaries by the set algebra.  dev <= tol is *necessary* for membership.
    """
    rows = _rows(P)
    k = node["k"]
    if k == "bnd":
        return np.abs(margin(node["d"], P))
    if k in ("bleft", "bright"):
        iv = node["d"]
        side = iv["a"] if k == "bleft" else iv["b"]
        return np.abs(P[iv["var"]][:, 0] - ev(side, P, rows))
    if k == "pt":
        return np.max(np.abs(P[node["var"]] - evv(node["p"], P, rows)), axis=1)
    if not is_boundary(node) and "pt" not in kinds(node):
        return np.maximum(0.0, -margin(node, P))
    if k == "union":
        return np.minimum(dev(node["a"], P), dev(node["b"], P))
    if k in ("inter", "prod"):
        return np.maximum(dev(node["a"], P), dev(node["b"], P))
    if k == "cut":
        return np.maximum(dev(node["a"], P), np.maximum(0.0, margin(node["b"], P)))
    if k in ("transl", "rot"):
        return dev(node["d"], _pullback(node, P))
    raise ValueError(k)


# --------------------------------------------------------------- measures
def measure(node, P, rows=None):
    """Exact measure per row where the property defines one, else None."""
    rows = rows or _rows(P)
    k = node["k"]
    if k == "iv":
        return ev(node["b"], P, rows) - ev(node["a"], P, rows)
    if k == "circ":
        return math.pi * ev(node["r"], P, rows) ** 2
    if k == "sph":
        return 4.0 / 3.0 * math.pi * ev(node["r"], P, rows) ** 3
    if k in ("par", "tri"):
        c = corners(node, P, rows)
        d1 = c[:, 1] - c[:, 0]
        d2 = c[:, -1] - c[:, 0]
        det = np.abs(d1[:, 0] * d2[:, 1] - d1[:, 1] * d2[:, 0])
        return det if k == "par" else det / 2.0
    if k == "poly":
        def _area(vv):
            v = np.asarray(vv, float)
            return 0.5 * abs(np.sum(v[:, 0] * np.roll(v[:, 1], -1) - np.roll(v[:, 0], -1) * v[:, 1]))
        return np.full(rows, _area(node["verts"]) - sum(_area(h) for h in node.get("holes", [])))
    if k == "pt":
        return np.ones(rows)
    if k in ("bleft", "bright"):
        return np.ones(rows)
    if k == "bnd":
        d = node["d"]
        kd = d["k"]
        if kd == "iv":
            return np.full(rows, 2.0)
        if kd == "circ":
            return 2 * math.pi * ev(d["r"], P, rows)
        if kd == "sph":
            return 4 * math.pi * ev(d["r"], P, rows) ** 2
        if kd in ("par", "tri"):
            c = corners(d, P, rows)
            return np.sum(np.linalg.norm(np.roll(c, -1, axis=1) - c, axis=2), axis=1)
        if kd == "poly":
            tot = 0.0
            for ring in [d["verts"]] + list(d.get("holes", [])):
                v = np.asarray(ring, float)
                tot += float(np.sum(np.linalg.norm(np.roll(v, -1, axis=0) - v, axis=1)))
            return np.full(rows, tot)
        if kd == "union" and d.get("disjoint"):
            a, b = measure({"k": "bnd", "d": d["a"]}, P, rows), measure({"k": "bnd", "d": d["b"]}, P, rows)
            return None if a is None or b is None else a + b
        if kd == "cut" and d.get("contained"):
            a, b = measure({"k": "bnd", "d": d["a"]}, P, rows), measure({"k": "bnd", "d": d["b"]}, P, rows)
            return None if a is None or b is None else a + b
        if kd in ("transl", "rot"):
            return measure({"k": "bnd", "d": d["d"]}, P, rows)
        return None
    if k == "union":
        if not node.get("disjoint"):
            return None
        a, b = measure(node["a"], P, rows), measure(node["b"], P, rows)
        return None if a is None or b is None else a + b
    if k == "cut":
        if not node.get("contained"):
            return None
        a, b = measure(node["a"], P, rows), measure(node["b"], P, rows)
        return None if a is None or b is None else a - b
    if k == "prod":
        if free_vars(node["a"]) & {v for v, _ in space(node["b"])}:
            return None
        a, b = measure(node["a"], P, rows), measure(node["b"], P, rows)
        return None if a is None or b is None else a * b
    if k in ("transl", "rot"):
        return measure(node["d"], P, rows)
    return None


# ------------------------------------------------------------------ boxes
def _rot_pts(pts, ang, c):
    q = pts - c[:, None, :]
    ca, sa = np.cos(ang)[:, None], np.sin(ang)[:, None]
    x = ca * q[:, :, 0] - sa * q[:, :, 1]
    y = sa * q[:, :, 0] + ca * q[:, :, 1]
    return np.stack([x, y], axis=2) + c[:, None, :]


def box(node, P, exact_only=False):
    """Per-row enclosing box (rows, 2*dim) [min0,max0,min1,max1,..].

    Exact (tight) for primitives and their isometric images where computable;
    conservative for composites.  Returns (box, tight: bool).
    """
    rows = _rows(P)
    k = node["k"]
    if k == "iv":
        return np.stack([ev(node["a"], P, rows), ev(node["b"], P, rows)], axis=1), True
    if k in ("circ", "sph"):
        c = evv(node["c"], P, rows)
        r = ev(node["r"], P, rows)
        cols = []
        for i in range(c.shape[1]):
            cols += [c[:, i] - r, c[:, i] + r]
        return np.stack(cols, axis=1), True
    if k in ("par", "tri"):
        c = corners(node, P, rows)
        return np.stack([c[:, :, 0].min(1), c[:, :, 0].max(1), c[:, :, 1].min(1), c[:, :, 1].max(1)], axis=1), True
    if k == "poly":
        v = np.asarray(node["verts"], float)
        b = np.array([v[:, 0].min(), v[:, 0].max(), v[:, 1].min(), v[:, 1].max()])
        return np.tile(b, (rows, 1)), True
    if k == "pt":
        p = evv(node["p"], P, rows)
        cols = []
        for i in range(p.shape[1]):
            cols += [p[:, i], p[:, i]]
        return np.stack(cols, axis=1), False
    if k in ("bnd", "bleft", "bright"):
        b, t = box(node["d"], P)
        return b, t and k == "bnd"
    if k == "union":
        a, ta = box(node["a"], P)
        b, tb = box(node["b"], P)
        out = a.copy()
        out[:, 0::2] = np.minimum(a[:, 0::2], b[:, 0::2])
        out[:, 1::2] = np.maximum(a[:, 1::2], b[:, 1::2])
        return out, ta and tb and not is_boundary(node)
    if k in ("cut", "inter"):
        a, _ = box(node["a"], P)
        return a, False
    if k == "prod":
        Q = P
        a, ta = box(node["a"], Q)
        b, tb = box(node["b"], P)
        return np.concatenate([a, b], axis=1), False
    if k == "transl":
        b, t = box(node["d"], P)
        v = evv(node["v"], P, rows)
        return b + np.repeat(v, 2, axis=1), t
    if k == "rot":
        d = node["d"]
        ang = ev(node["ang"], P, rows)
        c = evv(node["around"], P, rows)
        base = d["d"] if d["k"] == "bnd" else d
        if base["k"] in ("par", "tri"):
            pts = _rot_pts(corners(base, P, rows), ang, c)
            return np.stack([pts[:, :, 0].min(1), pts[:, :, 0].max(1), pts[:, :, 1].min(1), pts[:, :, 1].max(1)], axis=1), True
        if base["k"] == "circ":
            cc = _rot_pts(evv(base["c"], P, rows)[:, None, :], ang, c)[:, 0, :]
            r = ev(base["r"], P, rows)
            return np.stack([cc[:, 0] - r, cc[:, 0] + r, cc[:, 1] - r, cc[:, 1] + r], axis=1), True
        b, _ = box(d, P)
        cs = np.stack([np.stack([b[:, i], b[:, 2 + j]], axis=1) for i in (0, 1) for j in (0, 1)], axis=1)
        pts = _rot_pts(cs, ang, c)
        return np.stack([pts[:, :, 0].min(1), pts[:, :, 0].max(1), pts[:, :, 1].min(1), pts[:, :, 1].max(1)], axis=1), False
    raise ValueError(k)


# ------------------------------------------------------- reference sampler
def uniform_sample(node, params_row, n, rng, max_rounds=200):
    """n reference points uniform in a *solid* expression (single parameter row).

    Rejection from the reference box through ``margin`` -- deliberately not the
    inverse-CDF constructions the library uses.  Returns dict var -> (n, dim).
    For dependent products the second factor's variables are part of the point.
    """
    sp = space(node)
    one = {v: np.asarray(val, float).reshape(1, -1) for v, val in params_row.items()}
    # a box for rejection: evaluate the conservative box on a grid of partner values
    if node["k"] == "prod" and (free_vars(node["a"]) & {v for v, _ in space(node["b"])}):
        bb, _ = box(node["b"], one)
        # scan the partner coordinates (one or more 1-D partner variables) for the first factor's box
        spb = space(node["b"])
        assert all(db == 1 for _, db in spb)
        g = 65 if len(spb) == 1 else (33 if len(spb) == 2 else 9)
        axes = [np.linspace(bb[0, 2 * i], bb[0, 2 * i + 1], g) for i in range(len(spb))]
        mesh = np.meshgrid(*axes, indexing="ij")
        Q = {v: np.repeat(val, mesh[0].size, axis=0) for v, val in one.items()}
        for (vb, _), m in zip(spb, mesh):
            Q[vb] = m.reshape(-1, 1)
        ba, _ = box(node["a"], Q)
        lo = list(ba[:, 0::2].min(0)) + [bb[0, 2 * i] for i in range(len(spb))]
        hi = list(ba[:, 1::2].max(0)) + [bb[0, 2 * i + 1] for i in range(len(spb))]
    else:
        b, _ = box(node, one)
        lo, hi = list(b[0, 0::2]), list(b[0, 1::2])
    lo, hi = np.array(lo), np.array(hi)
    out = []
    got = 0
    batch = max(4 * n, 1024)
    for _ in range(max_rounds):
        u = rng.random((batch, len(lo))) * (hi - lo) + lo
        P = {v: np.repeat(val, batch, axis=0) for v, val in one.items()}
        j = 0
        for v, d in sp:
            P[v] = u[:, j:j + d]
            j += d
        keep = margin(node, P) >= 0
        out.append(u[keep])
        got += int(keep.sum())
        if got >= n:
            break
    u = np.concatenate(out, axis=0)[:n]
    res = {}
    j = 0
    for v, d in sp:
        res[v] = u[:, j:j + d]
        j += d
    return res


def probe_points(node, params_row, n, rng, pad=0.3):
    """Query points in the enlarged reference box (for membership probes)."""
    sp = space(node)
    one = {v: np.asarray(val, float).reshape(1, -1) for v, val in params_row.items()}
    b, _ = box(node, one)
    lo, hi = b[0, 0::2] - pad, b[0, 1::2] + pad
    u = rng.random((n, len(lo))) * (hi - lo) + lo
    res = {}
    j = 0
    for v, d in sp:
        res[v] = u[:, j:j + d]
        j += d
    return res


# ------------------------------------------------- boundary features (C06)
def feature_dists(node, P):
    """List of arrays: distance of every row to each boundary *feature* (edge
    line of a polygon, circle/sphere surface, interval end) of the solid node."""
    rows = _rows(P)
    k = node["k"]
    if k == "iv":
        p = P[node["var"]][:, 0]
        return [np.abs(p - ev(node["a"], P, rows)), np.abs(p - ev(node["b"], P, rows))]
    if k in ("circ", "sph"):
        c = evv(node["c"], P, rows)
        return [np.abs(ev(node["r"], P, rows) - np.linalg.norm(P[node["var"]] - c, axis=1))]
    if k in ("par", "tri"):
        verts = corners(node, P, rows)
        a = verts
        b = np.roll(verts, -1, axis=1)
        e = b - a
        # distance to the edge SEGMENTS (not to their lines: a point on the continuation of an edge beyond its
        # corner is not near that edge)
        w = P[node["var"]][:, None, :] - a
        tpar = np.clip(np.sum(w * e, axis=2) / np.maximum(np.sum(e * e, axis=2), 1e-300), 0.0, 1.0)
        d = np.linalg.norm(w - tpar[:, :, None] * e, axis=2)
        return [d[:, i] for i in range(d.shape[1])]
    if k == "poly":
        p = P[node["var"]]
        out = []
        for ring in [node["verts"]] + list(node.get("holes", [])):
            v = np.asarray(ring, float)
            out += [_seg_dist(p, v[i], v[(i + 1) % len(v)]) for i in range(len(v))]
        return out
    if k in ("union", "cut", "inter", "prod"):
        return feature_dists(node["a"], P) + feature_dists(node["b"], P)
    if k in ("transl", "rot"):
        return feature_dists(node["d"], _pullback(node, P))
    raise ValueError(k)


def n_features_near(node, P, r):
    d = np.stack(feature_dists(node, P), axis=1)
    return (d <= r).sum(axis=1)


def structured_probes(node, prow, rng, per_edge=6):
    """Adversarial query points for *boundary* predicates of polygons: points on
    the extension of every edge line beyond the segment (measure-zero sets a
    random probe never hits).  Supported for bnd(chain of transl/rot around par/tri)."""
    if node["k"] != "bnd":
        return None
    chain = []
    base = node["d"]
    while base["k"] in ("transl", "rot"):
        chain.append(base)
        base = base["d"]
    if base["k"] not in ("par", "tri"):
        return None
    one = {v: np.asarray(val, float).reshape(1, -1) for v, val in prow.items()}
    if any(v not in one for v in free_vars(node)):
        return None
    if not one:
        one = {"_": np.zeros((1, 1))}
    verts = corners(base, one, 1)[0]
    pts = []
    m = len(verts)
    for i in range(m):
        a, b = verts[i], verts[(i + 1) % m]
        for _ in range(per_edge):
            s = rng.uniform(0.05, 0.6)
            s = -s if rng.random() < 0.5 else 1 + s
            pts.append(a + s * (b - a))
    p = np.array(pts)
    for t in reversed(chain):
        n = len(p)
        Q = {v: np.repeat(val, n, axis=0) for v, val in one.items()}
        if t["k"] == "transl":
            p = p + evv(t["v"], Q, n)
        else:
            ang = ev(t["ang"], Q, n)
            c = evv(t["around"], Q, n)
            p = _rot_pts(p[:, None, :], ang, c)[:, 0, :]
    return {base["var"]: p}


# --------------------------------------------- reference boundary sampler
def _prim_boundary(node, one, N, rng):
    """N points uniform w.r.t. arclength/area on the boundary of a primitive (world coords)."""
    k = node["k"]
    if k == "circ":
        c = evv(node["c"], one, 1)[0]
        r = ev(node["r"], one, 1)[0]
        g = rng.normal(size=(N, 2))
        g /= np.linalg.norm(g, axis=1, keepdims=True)
        return c + r * g
    if k == "sph":
        c = evv(node["c"], one, 1)[0]
        r = ev(node["r"], one, 1)[0]
        g = rng.normal(size=(N, 3))
        g /= np.linalg.norm(g, axis=1, keepdims=True)
        return c + r * g
    if k in ("par", "tri", "poly"):
        v = corners(node, one, 1)[0] if k != "poly" else np.asarray(node["verts"], float)
        a, b = v, np.roll(v, -1, axis=0)
        ln = np.linalg.norm(b - a, axis=1)
        e = rng.choice(len(v), size=N, p=ln / ln.sum())
        s = rng.random(N)[:, None]
        return a[e] + s * (b[e] - a[e])
    if k == "iv":
        a, b = ev(node["a"], one, 1)[0], ev(node["b"], one, 1)[0]
        return np.where(rng.random(N) < 0.5, a, b)[:, None]
    raise ValueError(k)


def _leaf_boundaries(node, one):
    """[(sample(N, rng) -> world points, length)] for every primitive leaf of a solid."""
    k = node["k"]
    if k in ("circ", "sph", "par", "tri", "poly", "iv"):
        ln = float(measure({"k": "bnd", "d": node}, one, 1)[0])
        return [((lambda N, rng, _n=node: _prim_boundary(_n, one, N, rng)), ln)]
    if k in ("union", "cut", "inter"):
        return _leaf_boundaries(node["a"], one) + _leaf_boundaries(node["b"], one)
    if k in ("transl", "rot"):
        out = []
        for fn, ln in _leaf_boundaries(node["d"], one):
            if k == "transl":
                v = evv(node["v"], one, 1)[0]
                out.append(((lambda N, rng, _f=fn, _v=v: _f(N, rng) + _v), ln))
            else:
                ang = ev(node["ang"], one, 1)
                c = evv(node["around"], one, 1)
                out.append(((lambda N, rng, _f=fn: _rot_pts(_f(N, rng)[None, :, :], ang, c)[0]), ln))
        return out
    raise ValueError(k)


def boundary_sample(solid, params_row, N, rng):
    """~N reference points uniform (arclength) on the boundary of a solid expression."""
    one = {v: np.asarray(val, float).reshape(1, -1) for v, val in params_row.items()}
    if not one:
        one = {"_": np.zeros((1, 1))}
    leaves = _leaf_boundaries(solid, one)
    total = sum(ln for _, ln in leaves)
    var = space(solid)[0][0]
    pts = []
    for fn, ln in leaves:
        n = max(1, int(round(N * ln / total)))
        p = fn(n, rng)
        P = {v: np.repeat(val, len(p), axis=0) for v, val in one.items()}
        P[var] = p
        keep = np.abs(margin(solid, P)) <= 1e-7
        pts.append(p[keep])
    return {var: np.concatenate(pts, axis=0)}


def acceptance_floor(node, params_row, rng, n=600):
    """Smallest acceptance rate of the rejection loops the library needs for this expression
    (for every cut/intersection: share of the first operand that survives), estimated with
    the reference sampler.  Used to tell a slow-but-legitimate rejection loop from a hang."""
    worst = 1.0
    try:
        if node["k"] in ("cut", "inter") and not is_boundary(node):
            pts = uniform_sample(node["a"], params_row, n, rng)
            m = len(next(iter(pts.values())))
            P = dict(pts)
            for v, val in params_row.items():
                P[v] = np.repeat(np.asarray(val, float).reshape(1, -1), m, axis=0)
            worst = min(worst, float(np.mean(margin(node, P) >= 0)))
        for c in children(node):
            if c["k"] not in ("iv",) or True:
                worst = min(worst, acceptance_floor(c, params_row, rng, n))
    except Exception:
        return 0.0
    return worst
