"""Hand-computed unit tests of the reference model R-geo (run by ./check --selfcheck)."""
import math

import numpy as np

from . import geometry as G


def run():
    sq = {"k": "par", "var": "x", "o": [0, 0], "c1": [2, 0], "c2": [0, 2]}
    sq_cw = {"k": "par", "var": "x", "o": [0, 0], "c1": [0, 2], "c2": [2, 0]}
    circ = {"k": "circ", "var": "x", "c": [1.0, 1.0], "r": ["aff", 0.5, 0.5, "t"]}
    tri = {"k": "tri", "var": "x", "o": [0, 0], "c1": [4, 0], "c2": [0, 3]}
    P = {"x": np.array([[1.0, 1.0], [3.0, 1.0], [0.25, 1.0], [1.0, 1.75]]), "t": np.array([[0.0], [0.0], [1.0], [1.0]])}
    n = 0

    def eq(a, b, tol=1e-12):
        nonlocal n
        n += 1
        assert np.allclose(a, b, atol=tol), (a, b)
    eq(G.margin(sq, P), [1.0, -1.0, 0.25, 0.25])
    eq(G.margin(sq_cw, P), [1.0, -1.0, 0.25, 0.25])                  # orientation does not matter
    eq(G.margin(circ, P), [0.5, -1.5, 0.25, 0.25])                   # r = 0.5 + 0.5 t, row-wise
    eq(G.margin({"k": "cut", "a": sq, "b": circ}, P), [-0.5, -1.0, -0.25, -0.25])
    eq(G.margin({"k": "union", "a": sq, "b": circ}, P), [1.0, -1.0, 0.25, 0.25])
    eq(G.margin({"k": "inter", "a": sq, "b": circ}, P), [0.5, -1.5, 0.25, 0.25])
    eq(G.margin(tri, {"x": np.array([[1.0, 1.0], [4.0, 3.0]])}), [min(1.0, 1.0, (12 - 3 - 4) / 5.0), -(12 + 12 - 12) / 5.0])
    tr = {"k": "transl", "d": sq, "v": [10.0, ["aff", 0.0, 1.0, "t"]]}
    eq(G.margin(tr, {"x": np.array([[11.0, 2.0]]), "t": np.array([[1.0]])}), [1.0])
    rot = {"k": "rot", "d": sq, "ang": math.pi / 2, "around": [0.0, 0.0]}   # square [0,2]^2 -> [-2,0]x[0,2]
    eq(G.margin(rot, {"x": np.array([[-1.0, 1.0], [1.0, 1.0]])}), [1.0, -1.0])
    eq(G.dev({"k": "bnd", "d": sq}, {"x": np.array([[2.0, 1.0], [1.0, 1.0]])}), [0.0, 1.0])
    eq(G.dev({"k": "bleft", "d": {"k": "iv", "var": "x", "a": 1.0, "b": 3.0}}, {"x": np.array([[1.0], [3.0]])}), [0.0, 2.0])
    one = {"t": np.array([[1.0]])}
    eq(G.measure(sq, one, 1), [4.0])
    eq(G.measure(sq_cw, one, 1), [4.0])
    eq(G.measure(tri, one, 1), [6.0])
    eq(G.measure(circ, one, 1), [math.pi])
    eq(G.measure({"k": "sph", "var": "x", "c": [0, 0, 0], "r": 1.0}, one, 1), [4 / 3 * math.pi])
    eq(G.measure({"k": "bnd", "d": tri}, one, 1), [12.0])
    eq(G.measure({"k": "bnd", "d": circ}, one, 1), [2 * math.pi])
    eq(G.measure({"k": "cut", "a": sq, "b": circ, "contained": True}, one, 1), [4 - math.pi])
    assert G.measure({"k": "cut", "a": sq, "b": circ, "contained": False}, one, 1) is None
    eq(G.measure({"k": "prod", "a": sq, "b": {"k": "iv", "var": "s", "a": 0.0, "b": 1.5}}, one, 1), [6.0])
    b, tight = G.box({"k": "rot", "d": {"k": "par", "var": "x", "o": [0, 0], "c1": [1, 0], "c2": [0, 1]}, "ang": math.pi / 4, "around": [0.0, 0.0]}, {"_": np.zeros((1, 1))})
    eq(b[0], [-math.sqrt(0.5), math.sqrt(0.5), 0.0, math.sqrt(2.0)])
    assert tight
    assert G.free_vars({"k": "prod", "a": circ, "b": {"k": "iv", "var": "t", "a": 0.0, "b": 1.0}}) == set()
    assert G.free_vars(tr) == {"t"}
    assert G.free_vars(G.subst(tr, {"t": 0.5})) == set()
    rng = np.random.default_rng(1)
    pts = G.uniform_sample({"k": "cut", "a": sq, "b": circ, "contained": True}, {"t": [0.0]}, 20000, rng)["x"]
    frac = np.mean(pts[:, 0] < 1.0)
    assert abs(frac - 0.5) < 0.02, frac                              # symmetric domain
    bp = G.boundary_sample({"k": "cut", "a": sq, "b": {"k": "circ", "var": "x", "c": [2.0, 1.0], "r": 0.75}}, {}, 40000, rng)["x"]
    arc = np.mean(np.abs(np.linalg.norm(bp - [2.0, 1.0], axis=1) - 0.75) < 1e-9)
    assert abs(arc - (math.pi * 0.75) / (math.pi * 0.75 + 6.5)) < 0.01, arc
    poly = {"k": "poly", "var": "x", "verts": [[0, 0], [4, 0], [4, 3], [0, 3]], "holes": [[[1, 1], [2, 1], [2, 2], [1, 2]]]}
    eq(G.margin(poly, {"x": np.array([[1.5, 1.5], [0.5, 1.5], [3.0, 1.5]])}), [-0.5, 0.5, 1.0])
    eq(G.measure(poly, one, 1), [11.0])
    return n
