"""geosim -- the geometry/sampling simulation engine.

Executes one explicit *case* (domain AST, parameter rows, entry point, fault
plan, draw seed) against the real torchphysics under SimRNG and evaluates the
oracles of C01/C02 and the monitors of C05/C10/C18 on what the library did.
Returns plain data only (no torchphysics object leaves this module).
"""
import math
import traceback
import warnings

import numpy as np
import torch

from .core.simrng import SimRNG, SimBudgetExceeded
from .core.seed import H
from .ref import geometry as G
from . import tpbuild as B

warnings.filterwarnings("ignore")


# ------------------------------------------------------------------ helpers
def innermost_site(tb):
    """Innermost torchphysics frame of a traceback: 'file.py:function'."""
    site = "?"
    for fr in traceback.extract_tb(tb):
        if "/torchphysics/" in fr.filename:
            site = "%s:%s" % (fr.filename.rsplit("/", 1)[-1], fr.name)
    return site


def viol(prop, clause, kind, site="", **detail):
    return {"property": prop, "clause": clause, "kind": kind, "site": site, "detail": detail}


def make_filter(spec):
    """filter_fn from {'var':..,'axis':..,'op':'gt'|'lt','c':..}."""
    if not spec:
        return None
    src = "lambda %s: %s[:, %d:%d] %s %r" % (
        spec["var"], spec["var"], spec["axis"], spec["axis"] + 1,
        ">" if spec["op"] == "gt" else "<", float(spec["c"]))
    return eval(src, {"torch": torch})


def filter_ok(spec, P):
    v = P[spec["var"]][:, spec["axis"]]
    return v > spec["c"] if spec["op"] == "gt" else v < spec["c"]


def features(case):
    dom = case["dom"]
    ks = G.kinds(dom)
    e = case["entry"]
    k = len(case.get("prows") or [])
    n = e.get("n")
    f = {
        "root": dom["k"],
        "kinds": "+".join(sorted(set(ks))),
        "entry": e["kind"] + ":" + (e.get("cls") or e.get("method")),
        "mode": "n" if n else "d",
        "k": "0" if k == 0 else ("1" if k == 1 else "2+"),
        "n1": bool(n == 1),
        "filter": bool(e.get("filter")),
        "boundary": G.is_boundary(dom),
        "dep": bool(G.free_vars(dom)),
        "faulty": bool(case.get("fault")),
        "has_tf": any(x in ("transl", "rot") for x in ks),
        "dep_prod": _has_dependent_product(dom),
    }
    return f


def build_sampler(entry, domain):
    import torchphysics as tp
    S = tp.samplers
    cls = entry["cls"]
    kw = {}
    if entry.get("n"):
        kw["n_points"] = int(entry["n"])
    else:
        kw["density"] = float(entry["d"])
    flt = make_filter(entry.get("filter"))
    if cls == "RandomUniform":
        return S.RandomUniformSampler(domain, filter_fn=flt, **kw)
    if cls == "Grid":
        return S.GridSampler(domain, filter_fn=flt, **kw)
    if cls == "Gaussian":
        g = entry["gauss"]
        return S.GaussianSampler(domain, n_points=int(entry["n"]), mean=list(g["mean"]), std=float(g["std"]))
    if cls == "LHS":
        return S.LHSSampler(domain, n_points=int(entry["n"]))
    if cls == "AdaptiveThreshold":
        return S.AdaptiveThresholdRejectionSampler(domain, resample_ratio=float(entry.get("ratio", 0.5)),
                                                   filter_fn=flt, **kw)
    if cls == "AdaptiveRandom":
        return S.AdaptiveRandomRejectionSampler(domain, filter_fn=flt, **kw)
    raise ValueError(cls)


# -------------------------------------------------------------- monitors
class Monitors:
    """Intercepts _contains / volume / bounding_box calls the library makes on
    the nodes of the built expression *during* simulated sampling."""

    def __init__(self, sim):
        self.sim = sim
        self.records = []      # (what, node, value, points table)
        self._undo = []

    def attach(self, node, obj):
        """Wrap the bound methods of ``obj`` (built from AST ``node``)."""
        mon = self
        if hasattr(obj, "_contains"):
            orig = obj._contains

            def contains(points, params=B.Points.empty(), _o=orig, _n=node):
                out = _o(points, params)
                try:
                    if len(mon.records) < 400:
                        P = B.table(points, B.table(params))
                        mon.records.append(("contains", _n, out.detach().clone(), P))
                except Exception:
                    pass
                return out
            obj._contains = contains
            self._undo.append((obj, "_contains"))
        if hasattr(obj, "volume"):
            origv = obj.volume

            def volume(params=B.Points.empty(), device="cpu", _o=origv, _n=node):
                out = _o(params, device=device)
                try:
                    if len(mon.records) < 400:
                        mon.records.append(("volume", _n, out.detach().clone(), B.table(params)))
                except Exception:
                    pass
                return out
            obj.volume = volume
            self._undo.append((obj, "volume"))

    def attach_tree(self, node, obj):
        """Attach to obj and to the sub-objects the library keeps references to."""
        self.attach(node, obj)
        k = node["k"]
        if k in ("union", "cut", "inter", "prod"):
            self.attach_tree(node["a"], obj.domain_a)
            self.attach_tree(node["b"], obj.domain_b)
        elif k in ("transl", "rot"):
            self.attach_tree(node["d"], obj.domain)
        elif k in ("bnd",) and hasattr(obj, "domain") and not type(obj).__name__.startswith(("Translate", "Rotate")):
            self.attach_tree(node["d"], obj.domain)

    def detach(self):
        for obj, name in self._undo:
            try:
                delattr(obj, name)
            except AttributeError:
                pass
        self._undo = []


def judge_monitors(mon, out):
    """C05 (i): membership answers given during sampling; C10 (i): volumes."""
    n_contains = n_vol = 0
    for what, node, val, P in mon.records:
        try:
            if what == "contains":
                v = val.reshape(-1).double().numpy()
                rows = len(v)
                if rows == 0 or any(len(a) != rows for a in P.values()):
                    continue
                if any(v_ not in P for v_ in G.free_vars(node)):
                    continue
                if G.is_boundary(node) or "pt" in G.kinds(node):
                    d = G.dev(node, P)
                    far = d > G.TOL_FAR
                    bad = far & (v > 0.5)
                    n_contains += int(far.sum())
                    if bad.any():
                        i = int(np.argmax(bad))
                        out.append(viol("C05", "monitor-boundary-rejects-far", "accepts-far-point",
                                        node["k"], dev=float(d[i]), row=i, node=node["k"]))
                else:
                    m = G.margin(node, P)
                    far = np.abs(m) > G.TOL_FAR
                    bad = far & ((m > 0) != (v > 0.5))
                    n_contains += int(far.sum())
                    if bad.any():
                        i = int(np.argmax(bad))
                        out.append(viol("C05", "monitor-membership", "wrong-answer", node["k"],
                                        margin=float(m[i]), answer=float(v[i]), row=i, node=node["k"]))
            else:
                lens = {len(a) for a in P.values()}
                if len(lens) > 1:
                    continue
                rows = max(1, max(lens or [1]))
                if any(v_ not in P for v_ in G.free_vars(node)):
                    continue
                mu = G.measure(node, P, rows)
                if mu is None:
                    continue
                v = val.reshape(-1).double().numpy()
                n_vol += 1
                if len(v) != rows:
                    # a measure that does not depend on the parameters may come back as one row
                    if not (len(v) == 1 and np.ptp(mu) <= 1e-12 * max(1.0, abs(float(mu[0])))):
                        out.append(viol("C10", "monitor-volume", "rows", node["k"], got=len(v), want=rows))
                        continue
                    mu = mu[:1]
                if not np.allclose(v, mu[:len(v)], rtol=1e-4, atol=1e-6):
                    out.append(viol("C10", "monitor-volume", "value", node["k"],
                                    got=float(v[0]), want=float(mu[0]), node=node["k"]))
        except Exception as e:  # a monitor must never break a run
            out.append(viol("HARNESS", "monitor", type(e).__name__, "", msg=str(e)[:200]))
    return n_contains, n_vol


# ------------------------------------------------------------- execution
def run_entry(case, sim, mon=None):
    """Build the objects and perform the entry call; returns (points, domain, sampler)."""
    dom = case["dom"]
    if case.get("dom_build"):
        # the object under test is a PARTIAL EVALUATION: built from the parameter-dependent expression dom_build and
        # called with pe_vals; case["dom"] is the same expression with those values substituted (for the oracle)
        domain = B.build(case["dom_build"])(**{v: torch.tensor([[float(x)]]) for v, x in case["pe_vals"].items()})
    else:
        domain = B.build(dom)
    if mon is not None and not case.get("dom_build"):
        mon.attach_tree(dom, domain)
    params = B.params_points(case.get("pspace"), case.get("prows"))
    e = case["entry"]
    sim.begin_op()
    if e["kind"] == "domain":
        fn = domain.sample_random_uniform if e["method"] == "random" else domain.sample_grid
        if e.get("n"):
            pts = fn(n=int(e["n"]), params=params)
        else:
            pts = fn(d=float(e["d"]), params=params)
        return pts, domain, None
    sampler = build_sampler(e, domain)
    pts = None
    calls = int(e.get("calls", 1))
    for c in range(calls):
        sim.begin_op()
        if e["cls"].startswith("Adaptive"):
            loss = None if pts is None else torch.linspace(0, 1, len(pts))
            pc = params
            seq = earlier_prows(case)
            if c < calls - 1 and c < len(seq):
                # an earlier round of the history was called with other parameter rows
                pc = B.params_points(case.get("pspace"), seq[c])
            pts = sampler.sample_points(unreduced_loss=loss, params=pc)
        else:
            pts = sampler.sample_points(params)
    return pts, domain, sampler


def giveup_plausible(obj):
    """The library documents that a filtered sampler raises RuntimeError after 20 rounds without a single valid
    point. With the generator's filters (acceptance >= 50 % at every row) that has probability <= 2^-20 per
    call for a leaf that proposes ONE point per round and <= 2^-40 otherwise: in the thorough tier (~1e6 calls
    of such leaves) the first is an expected, legitimate outcome, the second is not."""
    if isinstance(obj, dict):
        if obj.get("filter") and obj.get("n") == 1:
            return True
        return any(giveup_plausible(v) for v in obj.values())
    if isinstance(obj, (list, tuple)):
        return any(giveup_plausible(v) for v in obj)
    return False


def earlier_prows(case):
    """Parameter rows of the earlier calls of an adaptive history (same number of rows as
    the last call, which uses case['prows'])."""
    e = case["entry"]
    prows = case.get("prows") or []
    if not prows or not e.get("prows_seq") or int(e.get("calls", 1)) < 2:
        return []
    return [[list(r) for r in rows[:len(prows)]] for rows in e["prows_seq"] if len(rows) >= len(prows)]


def check_membership(case, pts, out, stats):
    """C01: every returned row lies in the denoted set at its own parameter row."""
    dom = case["dom"]
    e = case["entry"]
    sp = G.space(dom)
    pspace = [tuple(x) for x in (case.get("pspace") or [])]
    prows = case.get("prows") or []
    k = len(prows)
    t = pts.as_tensor
    if t.dim() != 2:
        out.append(viol("C01", "result-shape", "rank", "", shape=list(t.shape)))
        return None
    if not torch.isfinite(t).all():
        out.append(viol("C01", "finite", "non-finite-coordinate", "",
                        rows=int((~torch.isfinite(t).all(dim=1)).sum())))
        return None
    names = list(pts.space.keys())
    want = [v for v, _ in sp]
    if names[:len(want)] != want:
        out.append(viol("C01", "space", "wrong-space", "", got=names, want=want))
        return None
    P = B.table(pts)
    rows = len(t)
    if e["kind"] == "domain":
        if k:
            n = e.get("n")
            if n and rows == n * k:
                P.update(B.repeat_rows(pspace, prows, n))
            elif (not n) and k == 1:
                P.update(B.repeat_rows(pspace, prows, rows))
            else:
                stats["unpairable"] = stats.get("unpairable", 0) + 1
                return None
    else:
        missing = [v for v, _ in pspace if v not in P] if k else []
        if missing:
            out.append(viol("C02", "space", "params-missing-in-output", "", missing=missing))
            return None
    need = G.free_vars(dom)
    if any(v not in P for v in need):
        stats["unpairable"] = stats.get("unpairable", 0) + 1
        return None
    if rows == 0:
        return P
    d = G.dev(dom, P)
    stats["rows_judged"] = stats.get("rows_judged", 0) + rows
    stats["max_dev"] = max(stats.get("max_dev", 0.0), float(d.max()))
    bad = d > G.TOL_ON
    if bad.any():
        i = int(np.argmax(d))
        out.append(viol("C01", "membership", "boundary-off" if G.is_boundary(dom) else "outside", "",
                        rows_bad=int(bad.sum()), rows=rows, worst=float(d[i]), row=i))
    flt = e.get("filter")
    if flt and not filter_ok(flt, P).all():
        out.append(viol("C01", "filter", "filtered-point-returned", "",
                        rows_bad=int((~filter_ok(flt, P)).sum())))
    return P


def check_counts(case, pts, sampler, out, stats):
    """C02: exactly n rows per parameter row, paired in order, right space."""
    e = case["entry"]
    n = e.get("n")
    prows = case.get("prows") or []
    pspace = [tuple(x) for x in (case.get("pspace") or [])]
    k = len(prows)
    t = pts.as_tensor
    rows = len(t)
    if n:
        want = n * max(k, 1)
        if rows != want:
            out.append(viol("C02", "row-count", "rows!=n*k", "", rows=rows, n=n, k=k))
            return
    if e["kind"] == "sampler":
        dsp = [v for v, _ in G.space(case["dom"])]
        want_names = dsp + ([v for v, _ in pspace if v not in dsp] if k else [])
        names = list(pts.space.keys())
        if names != want_names:
            out.append(viol("C02", "space", "wrong-space-order", "", got=names, want=want_names))
            return
        if k and n:
            P = B.table(pts)
            f32 = lambda rows_: [list(np.float32(r).astype(float)) for r in rows_]
            ref = B.repeat_rows(pspace, f32(prows), n)
            # a row kept by an adaptive sampler carries the parameter row of the call that drew it
            alts = [B.repeat_rows(pspace, f32(rows_), n) for rows_ in earlier_prows(case)]
            pv = [v for v, _ in pspace if v not in dsp]
            if pv:
                got = np.concatenate([P[v] for v in pv], axis=1)
                okrow = np.zeros(len(got), bool)
                for tab in [ref] + alts:
                    okrow |= np.all(got == np.concatenate([tab[v] for v in pv], axis=1), axis=1)
                if not okrow.all():
                    out.append(viol("C02", "pairing", "parameter-row-not-carried", "", var=pv[0],
                                    rows_bad=int((~okrow).sum())))
                    return
                if alts:
                    stats["adaptive_param_history"] = stats.get("adaptive_param_history", 0) + 1
                    stats["rows_with_earlier_params"] = stats.get("rows_with_earlier_params", 0) + int(
                        (~np.all(got == np.concatenate([ref[v] for v in pv], axis=1), axis=1)).sum())
        if sampler is not None and k == 0:
            try:
                ln = len(sampler)
            except ValueError:
                ln = None
            if ln is not None and ln != rows:
                out.append(viol("C02", "len", "len!=rows", "", len=ln, rows=rows))
    stats["count_checked"] = stats.get("count_checked", 0) + 1


def check_bbox_history(case, domain, P, out, stats):
    """C18 (i'): a HISTORY of bounding_box calls on the same object, one parameter row at a time (as the LHS sampler
    asks) and BEFORE any call with the whole batch: the box of a row must enclose that row's block of samples
    whatever was asked before."""
    if P is None or not P:
        return
    dom = case["dom"]
    if _has_dependent_product(dom):
        return
    sp = G.space(dom)
    dimn = sum(d for _, d in sp)
    coords = np.concatenate([P[v] for v, _ in sp], axis=1)
    tol = 1e-4
    # a HISTORY of calls on the same object, one parameter row at a time (as the LHS sampler asks): the box of a
    # row must enclose the rows of that row's block whatever was asked before
    prows = case.get("prows") or []
    e = case["entry"]
    if len(prows) >= 2 and e.get("n") and len(coords) == int(e["n"]) * len(prows) and not any(
            k_ in ("transl", "rot") for k_ in G.kinds(dom)):        # (F28: matrix-valued boxes of transforms)
        n = int(e["n"])
        order = sorted(range(len(prows)), key=lambda i: H(case["rng"], "bbox-order", i))
        for i in order:
            try:
                bi = domain.bounding_box(B.params_points(case.get("pspace"), [prows[i]]))
            except Exception as ex:
                out.append(viol("C18", "bbox-call", "raises:" + type(ex).__name__, innermost_site(ex.__traceback__),
                                msg=str(ex)[:160], single_row=True))
                return
            bi = torch.as_tensor(bi).double().reshape(-1).numpy() if not isinstance(bi, list) else np.asarray(bi, float)
            if len(bi) != 2 * dimn:
                return
            blk = coords[i * n:(i + 1) * n]
            stats["bbox_single_row_calls"] = stats.get("bbox_single_row_calls", 0) + 1
            if (blk < bi[0::2] - tol).any() or (blk > bi[1::2] + tol).any():
                worst = float(max((bi[0::2] - blk).max(), (blk - bi[1::2]).max()))
                out.append(viol("C18", "enclosure", "sample-outside-box-of-its-own-row", "", worst=worst, box=bi.tolist(), row=i))
                return


def check_bbox(case, domain, P, out, stats):
    """C18 (i): every produced point lies in bounding_box(params)."""
    if P is None or not P:
        return
    dom = case["dom"]
    if _has_dependent_product(dom):
        # documented 10-point estimate (the library warns and asks for set_bounding_box)
        stats["bbox_skipped_estimate"] = stats.get("bbox_skipped_estimate", 0) + 1
        return
    params = B.params_points(case.get("pspace"), case.get("prows"))
    try:
        bb = domain.bounding_box(params)
    except Exception as ex:
        out.append(viol("C18", "bbox-call", "raises:" + type(ex).__name__, innermost_site(ex.__traceback__),
                        msg=str(ex)[:160]))
        return
    bb = torch.as_tensor(bb).double().reshape(-1).numpy() if not isinstance(bb, list) else np.asarray(bb, float)
    sp = G.space(dom)
    dimn = sum(d for _, d in sp)
    if len(bb) != 2 * dimn:
        out.append(viol("C18", "bbox-shape", "length", "", got=len(bb), want=2 * dimn))
        return
    coords = np.concatenate([P[v] for v, _ in sp], axis=1)
    if len(coords) == 0:
        return
    lo, hi = bb[0::2], bb[1::2]
    tol = 1e-4
    if (coords < lo - tol).any() or (coords > hi + tol).any():
        worst = float(max((lo - coords).max(), (coords - hi).max()))
        out.append(viol("C18", "enclosure", "sample-outside-box", "", worst=worst, box=bb.tolist()))
    stats["bbox_checked"] = stats.get("bbox_checked", 0) + 1


def _points_of(dom, P, rows=None):
    """Points object in the domain's space (+ parameter columns) from a row table."""
    sp = G.space(dom)
    cols, space = [], None
    names = [v for v, _ in sp] + [v for v in P if v not in [x for x, _ in sp]]
    for v in names:
        a = P[v]
        cols.append(torch.tensor(a, dtype=torch.float32))
        s_ = B.mkspace(v, a.shape[1])
        space = s_ if space is None else space * s_
    return B.Points(torch.cat(cols, dim=1), space)


def check_own_membership(case, domain, pts, P, out, stats):
    """C05 (ii): the library's membership test accepts its own samples: boundary
    samples on the boundary predicate, interior samples farther than tol inside."""
    dom = case["dom"]
    if P is None or len(pts.as_tensor) == 0:
        return
    rows = len(pts.as_tensor)
    if G.is_boundary(dom) and any(x in ("transl", "rot") for x in G.kinds(dom)):
        # conditioning, not a defect: the float32 round trip through the (inverse)
        # isometry exceeds the isclose tolerance of the inner boundary test now and then
        stats["own_skipped_transformed_boundary"] = 1
        return
    sp_names = [v for v, _ in G.space(dom)]
    point_part = pts[:, sp_names] if list(pts.space.keys()) != sp_names else pts
    par_tab = {v: a for v, a in P.items() if v not in sp_names}
    if par_tab:
        cols, space = [], None
        for v, a in par_tab.items():
            cols.append(torch.tensor(a, dtype=torch.float32))
            s_ = B.mkspace(v, a.shape[1])
            space = s_ if space is None else space * s_
        params = B.Points(torch.cat(cols, dim=1), space)
    else:
        params = B.Points.empty()
    try:
        ans = domain._contains(B.Points(point_part.as_tensor.clone(), point_part.space), params)
    except Exception as ex:
        out.append(viol("C05", "own-samples", "raises:" + type(ex).__name__, innermost_site(ex.__traceback__),
                        msg=str(ex)[:160]))
        return
    ans = torch.as_tensor(ans)
    if ans.numel() != rows:
        out.append(viol("C05", "answer-shape", "one-truth-value-per-row", "", shape=list(ans.shape), rows=rows))
        return
    a = ans.reshape(-1).double().numpy() > 0.5
    if G.is_boundary(dom) or "pt" in G.kinds(dom):
        judge = G.dev(dom, P) <= G.TOL_ON
    else:
        judge = G.margin(dom, P) > G.TOL_FAR
    stats["own_judged"] = stats.get("own_judged", 0) + int(judge.sum())
    bad = judge & ~a
    if bad.any():
        out.append(viol("C05", "own-samples", "own-sample-rejected", "",
                        rows_bad=int(bad.sum()), rows=rows, boundary=G.is_boundary(dom)))
    elif G.is_boundary(dom):
        # the clause is about EVERY point the boundary sampler generates: a sample far off the boundary that the
        # (correct) membership test rejects is a disagreement between sampler and predicate as well
        off = (G.dev(dom, P) > G.TOL_FAR) & ~a
        if off.any():
            out.append(viol("C05", "own-samples", "boundary-sampler-generates-points-its-membership-test-rejects", "",
                            rows_bad=int(off.sum()), rows=rows))


def check_probe_membership(case, domain, out, stats, n=400):
    """C05 (iii): query points from the reference sampler in the enlarged box,
    each row with its own parameter row."""
    dom = case["dom"]
    pspace = [tuple(x) for x in (case.get("pspace") or [])]
    prows = case.get("prows") or []
    fv = G.free_vars(dom)
    rng = np.random.default_rng(H(case["rng"], "probe") % (2 ** 32))
    par_rows = prows if prows else [[]]
    if fv - {v for v, _ in pspace}:
        return
    tabs = []
    per = max(8, n // len(par_rows))
    for row in par_rows:
        prow = {v: [row[i]] for i, (v, _) in enumerate(pspace)}
        try:
            q = G.probe_points(dom, prow, per, rng)
            sq = G.structured_probes(dom, prow, rng)
            if sq is not None:
                q = {v: np.concatenate([q[v], sq[v]], axis=0) if v in sq else q[v] for v in q}
        except Exception:
            return
        per_row = len(next(iter(q.values())))
        for i, (v, d) in enumerate(pspace):
            if v not in q:
                q[v] = np.full((per_row, d), float(row[i]))
        tabs.append(q)
    P = {v: np.concatenate([t[v] for t in tabs], axis=0) for v in tabs[0]}
    sp_names = [v for v, _ in G.space(dom)]
    # round the probes to float32 so both sides see the same coordinates
    P = {v: a.astype(np.float32).astype(np.float64) for v, a in P.items()}
    pts = _points_of(dom, {v: P[v] for v in sp_names})
    par_tab = {v: a for v, a in P.items() if v not in sp_names}
    params = B.Points.empty()
    if par_tab:
        cols, space = [], None
        for v, a in par_tab.items():
            cols.append(torch.tensor(a, dtype=torch.float32))
            s_ = B.mkspace(v, a.shape[1])
            space = s_ if space is None else space * s_
        params = B.Points(torch.cat(cols, dim=1), space)
    joined = bool(par_tab) and (H(case["rng"], "probe-mode") % 2 == 0)
    try:
        if joined:
            # the query points carry their parameter columns themselves (as LHS / Gaussian samplers pass them)
            ans = domain._contains(pts.join(params), B.Points.empty())
            stats["probe_joined"] = stats.get("probe_joined", 0) + 1
        else:
            ans = domain._contains(pts, params)
    except Exception as ex:
        out.append(viol("C05", "probe", "raises:" + type(ex).__name__, innermost_site(ex.__traceback__),
                        msg=str(ex)[:160], joined=joined))
        return
    rows = len(pts.as_tensor)
    ans = torch.as_tensor(ans)
    if ans.numel() != rows:
        out.append(viol("C05", "answer-shape", "one-truth-value-per-row", "", shape=list(ans.shape), rows=rows))
        return
    a = ans.reshape(-1).double().numpy() > 0.5
    if G.is_boundary(dom) or "pt" in G.kinds(dom):
        d = G.dev(dom, P)
        far = d > G.TOL_FAR
        bad = far & a
        kind = "boundary-accepts-far-point"
    else:
        m = G.margin(dom, P)
        far = np.abs(m) > G.TOL_FAR
        bad = far & ((m > 0) != a)
        kind = "wrong-answer"
    stats["probe_judged"] = stats.get("probe_judged", 0) + int(far.sum())
    stats["probe_inside"] = stats.get("probe_inside", 0) + int((a & far).sum())
    if bad.any():
        i = int(np.argmax(bad))
        out.append(viol("C05", "probe", kind, "", rows_bad=int(bad.sum()), rows=rows, row=i))


def solid_of(node):
    """The solid whose boundary a boundary expression is (None if not of that form)."""
    if node["k"] in ("bnd", "bleft", "bright"):
        return node["d"]
    return None


def check_normals(case, domain, pts, P, out, stats, h=2e-3):
    """C06: normals at the library's own boundary samples are finite unit outward vectors."""
    dom = case["dom"]
    solid = solid_of(dom)
    if solid is None or P is None or not hasattr(domain, "normal") or len(pts.as_tensor) == 0:
        return
    if any(k_ in ("transl", "rot", "prod", "pt") for k_ in G.kinds(solid)):
        return  # C06 speaks of primitives and Boolean combinations of primitives
    sp_names = [v for v, _ in G.space(dom)]
    rows = len(pts.as_tensor)
    par_tab = {v: a for v, a in P.items() if v not in sp_names}
    params = B.Points.empty()
    if par_tab:
        cols, space = [], None
        for v, a in par_tab.items():
            cols.append(torch.tensor(a, dtype=torch.float32))
            s_ = B.mkspace(v, a.shape[1])
            space = s_ if space is None else space * s_
        params = B.Points(torch.cat(cols, dim=1), space)
    point_part = pts[:, sp_names] if list(pts.space.keys()) != sp_names else pts
    try:
        nrm = domain.normal(B.Points(point_part.as_tensor.clone(), point_part.space), params)
    except Exception as ex:
        out.append(viol("C06", "normal-call", "raises:" + type(ex).__name__, innermost_site(ex.__traceback__),
                        msg=str(ex)[:160]))
        return
    nrm = torch.as_tensor(nrm)
    d = sum(dd for _, dd in G.space(dom))
    if list(nrm.shape) != [rows, d]:
        out.append(viol("C06", "normal-shape", "shape", "", got=list(nrm.shape), want=[rows, d]))
        return
    nv = nrm.double().numpy()
    finite = np.isfinite(nv).all(axis=1)
    if not finite.all():
        out.append(viol("C06", "finite", "non-finite-normal", "", rows_bad=int((~finite).sum()), rows=rows))
    ln = np.linalg.norm(np.where(np.isfinite(nv), nv, 0.0), axis=1)
    bad_len = finite & (np.abs(ln - 1) > 1e-4)
    if bad_len.any():
        out.append(viol("C06", "unit", "not-unit-length", "", rows_bad=int(bad_len.sum()),
                        worst=float(np.abs(ln - 1)[bad_len].max())))
    ok = finite & ~bad_len
    v = sp_names[0]
    Pp = dict(P)
    Pm = dict(P)
    Pp[v] = P[v] + h * np.where(ok[:, None], nv, 0.0)
    Pm[v] = P[v] - h * np.where(ok[:, None], nv, 0.0)
    mp, mm = G.margin(solid, Pp), G.margin(solid, Pm)
    near = G.n_features_near(solid, P, 5 * h)
    regular = ok & (near <= 1)
    corner = ok & (near >= 2)
    bad = regular & ~((mp < 0) & (mm > 0))
    # near corners/junctions the step test is only meaningful in its weak form:
    # along the normal must not be *more* inside than against it
    # (polygon corners may be reflex: there the step along a single edge normal stays on the
    # boundary, so polygon corners are not judged)
    is_prim = solid["k"] in ("par", "tri", "iv", "circ", "sph")
    badc = corner & is_prim & ~((mp < 0) & (mm > mp))
    stats["normals_judged"] = stats.get("normals_judged", 0) + int(regular.sum())
    stats["normals_corner_judged"] = stats.get("normals_corner_judged", 0) + int((corner & is_prim).sum())
    if bad.any():
        i = int(np.argmax(bad))
        out.append(viol("C06", "outward", "not-outward", "", rows_bad=int(bad.sum()), rows=rows,
                        along=float(mp[i]), against=float(mm[i])))
    if badc.any():
        i = int(np.argmax(badc))
        out.append(viol("C06", "outward-corner", "not-outward", "", rows_bad=int(badc.sum()), rows=rows,
                        along=float(mp[i]), against=float(mm[i])))


_CLOSED_RANDOM = ("iv", "circ", "par", "sph", "pt")


def _count_class(dom):
    """'exact' (ceil(d*mu) rows), 'expect' (rejection based / Boolean: only in expectation) or None."""
    base = dom
    while base["k"] in ("transl", "rot"):
        base = base["d"]
    if base["k"] in _CLOSED_RANDOM:
        return "exact"
    if base["k"] in ("bnd", "bleft", "bright") and base["d"]["k"] in ("iv", "circ", "par", "tri", "sph"):
        return "exact"
    if base["k"] == "tri":
        return "expect"
    if base["k"] in ("union", "cut", "inter") and not G.is_boundary(base) and "pt" not in G.kinds(base):
        return "expect"
    return None


def true_measure(dom, prow, rng, n=400000):
    """Measure of a solid by quadrature of the reference margin (relative MC error returned)."""
    one = {v: np.asarray(val, float).reshape(1, -1) for v, val in prow.items()}
    b, _ = G.box(dom, one)
    lo, hi = b[0, 0::2], b[0, 1::2]
    u = rng.random((n, len(lo))) * (hi - lo) + lo
    P = {v: np.repeat(val, n, axis=0) for v, val in one.items()}
    j = 0
    for v, d in G.space(dom):
        P[v] = u[:, j:j + d]
        j += d
    frac = float(np.mean(G.margin(dom, P) >= 0))
    vol = float(np.prod(hi - lo)) * frac
    rel = math.sqrt(max(frac * (1 - frac), 1e-12) / n) / max(frac, 1e-12)
    return vol, rel


def check_density_count(case, pts, out, stats):
    """C10 (ii): density sampling yields density*measure points (exactly for closed-form
    primitives, at most that many on a grid)."""
    e = case["entry"]
    if not e.get("d") or e.get("filter") or len(case.get("prows") or []) > 1:
        return
    dom = case["dom"]
    cls = _count_class(dom)
    if cls is None:
        return
    pspace = [tuple(x) for x in (case.get("pspace") or [])]
    prows = case.get("prows") or []
    P = B.repeat_rows(pspace, prows, 1) if prows else {}
    if any(v not in P for v in G.free_vars(dom)):
        return
    mu = G.measure(dom, P, 1)
    if mu is None:
        return
    d = float(e["d"])
    want_lo = math.ceil(d * float(mu[0]) * (1 - 1e-6))
    want_hi = math.ceil(d * float(mu[0]) * (1 + 1e-6))
    rows = len(pts.as_tensor)
    grid = (e.get("method") == "grid") or (e.get("cls") == "Grid")
    stats["density_judged"] = stats.get("density_judged", 0) + 1
    if grid:
        # judged for primitives only: a Boolean combination keeps the grid points of its
        # first operand that survive the membership test, whose number is d*mu only up to
        # the discrepancy of that grid
        base_k = dom
        while base_k["k"] in ("transl", "rot"):
            base_k = base_k["d"]
        if base_k["k"] in ("union", "cut", "inter"):
            return
        # at least one point is demanded only where a regular lattice of <= want points exists at all: the
        # lattice of a parallelogram follows its side ratio rho (n_short = floor(sqrt(n/rho))), so a strip with
        # rho > n legitimately gets an empty grid (the property only bounds the count from above)
        rho = 1.0
        if base_k["k"] in ("par", "tri"):
            one = dict(P) if P else {"_": np.zeros((1, 1))}
            cs_ = G.corners(base_k, one, 1)[0]
            l1, l2 = float(np.linalg.norm(cs_[1] - cs_[0])), float(np.linalg.norm(cs_[-1] - cs_[0]))
            rho = max(l1, l2) / max(min(l1, l2), 1e-12)
        need_one = want_hi >= 16 * max(1.0, rho)
        if not ((1 if need_one else 0) <= rows <= want_hi):
            out.append(viol("C10", "density-grid-count", "grid-count-out-of-range", "", rows=rows, want=want_hi))
    elif cls == "exact":
        if not (want_lo <= rows <= want_hi):
            out.append(viol("C10", "density-count", "rows!=ceil(d*mu)", "", rows=rows, want=want_hi,
                            d=d, mu=float(mu[0])))


def check_volume_direct(case, domain, out, stats):
    """C10: volume(params) equals the reference measure, one positive value per row."""
    dom = case["dom"]
    pspace = [tuple(x) for x in (case.get("pspace") or [])]
    prows = case.get("prows") or []
    params = B.params_points(pspace, prows)
    P = B.repeat_rows(pspace, prows, 1) if prows else {}
    if any(v not in P for v in G.free_vars(dom)):
        return
    rows = max(1, len(prows))
    mu = G.measure(dom, P, rows)
    if mu is None:
        return
    try:
        vol = domain.volume(params)
    except Exception as ex:
        out.append(viol("C10", "volume-call", "raises:" + type(ex).__name__, innermost_site(ex.__traceback__),
                        msg=str(ex)[:160]))
        return
    v = torch.as_tensor(vol).double().reshape(-1).numpy()
    stats["volumes_direct"] = stats.get("volumes_direct", 0) + 1
    if len(v) != rows and not (len(v) == 1 and np.ptp(mu) <= 1e-12 * max(1.0, abs(float(mu[0])))):
        out.append(viol("C10", "volume", "rows", "", got=len(v), want=rows))
        return
    if not np.all(v > 0):
        out.append(viol("C10", "volume", "not-positive", "", value=float(v.min())))
        return
    if not np.allclose(v, mu[:len(v)], rtol=1e-4, atol=1e-6):
        i = int(np.argmax(np.abs(v - mu[:len(v)])))
        out.append(viol("C10", "volume", "value", "", got=float(v[i]), want=float(mu[i]), root=dom["k"]))


def check_bbox_tight(case, domain, out, stats):
    """C18 (ii): for primitives of positive measure at a single row the box is tight."""
    dom = case["dom"]
    prows = case.get("prows") or []
    if len(prows) > 1 or dom["k"] not in ("iv", "circ", "par", "tri", "sph"):
        return
    pspace = [tuple(x) for x in (case.get("pspace") or [])]
    P = B.repeat_rows(pspace, prows, 1) if prows else {}
    if any(v not in P for v in G.free_vars(dom)):
        return
    if not P:
        P = {"_": np.zeros((1, 1))}
    ref, tight = G.box(dom, P)
    if not tight:
        return
    try:
        bb = domain.bounding_box(B.params_points(pspace, prows))
    except Exception:
        return  # reported by check_bbox
    bb = torch.as_tensor(bb).double().reshape(-1).numpy()
    stats["bbox_tight_judged"] = stats.get("bbox_tight_judged", 0) + 1
    if len(bb) == ref.shape[1] and not np.allclose(bb, ref[0], rtol=1e-5, atol=1e-5):
        out.append(viol("C18", "tight", "box-not-tight", "", got=bb.tolist(), want=ref[0].tolist()))


def check_lhs_coverage(case, domain, out, stats):
    """C18 (iv): Latin-hypercube proposals cover the whole box -- pooled over repeated calls the
    position of the points *within* their slab must reach every fifth of the slab, on every axis
    (boxes only: interval and axis-aligned parallelogram, parameter free)."""
    e = case["entry"]
    dom = case["dom"]
    if e.get("cls") != "LHS" or case.get("prows") or G.free_vars(dom) or dom["k"] not in ("iv", "par"):
        return
    if (case.get("fault") or {}).get("kinds"):
        return      # a statement about the law of the proposals: adversarial draw values are by construction not covering
    one = {"_": np.zeros((1, 1))}
    bx, _ = G.box(dom, one)
    if dom["k"] == "par":
        c = G.corners(dom, one, 1)[0]
        d1, d2 = c[1] - c[0], c[3] - c[0]
        if min(abs(d1[0]), abs(d1[1])) > 1e-9 or min(abs(d2[0]), abs(d2[1])) > 1e-9:
            return      # not axis aligned: proposals are rejected outside the shape
    import torchphysics as tp
    n = int(e["n"])
    reps = max(1, math.ceil(400 / n))
    smp = tp.samplers.LHSSampler(domain, n_points=n)
    U = []
    for _ in range(reps):
        A = smp.sample_points().as_tensor.double().numpy()
        U.append(A)
    A = np.concatenate(U, axis=0)
    stats["lhs_coverage_judged"] = stats.get("lhs_coverage_judged", 0) + 1
    for ax in range(A.shape[1]):
        lo, hi = bx[0, 2 * ax], bx[0, 2 * ax + 1]
        u = (A[:, ax] - lo) / (hi - lo) * n
        u = u - np.floor(u)
        hist = np.histogram(u, bins=5, range=(0, 1))[0]
        if (hist == 0).any():
            out.append(viol("C18", "lhs-coverage", "part-of-every-slab-is-never-proposed", "", axis=ax, n=n,
                            histogram=hist.tolist(), points=len(A)))
            return


def check_normalization(case, domain, pts, P, out, stats):
    """C18 (iii): a NormalizationLayer built from the box maps the samples into [-1,1]^d."""
    dom = case["dom"]
    if P is None or G.free_vars(dom) or G.is_boundary(dom) or case.get("prows") or "pt" in G.kinds(dom):
        return
    if _has_dependent_product(dom) or len(pts.as_tensor) == 0:
        return
    import torchphysics as tp
    try:
        layer = tp.models.NormalizationLayer(domain)
        sp_names = [v for v, _ in G.space(dom)]
        o = layer(B.Points(pts[:, sp_names].as_tensor.clone(), pts[:, sp_names].space)).as_tensor
    except Exception as ex:
        out.append(viol("C18", "normalization", "raises:" + type(ex).__name__, innermost_site(ex.__traceback__),
                        msg=str(ex)[:160]))
        return
    stats["normalization_judged"] = stats.get("normalization_judged", 0) + 1
    m = float(o.abs().max())
    if m > 1 + 1e-4:
        out.append(viol("C18", "normalization", "outside-[-1,1]", "", worst=m))
        return
    if len(sp_names) >= 2:
        # "per axis in space order": the same points handed over with their variables in another order must be mapped
        # to the same values, variable by variable
        try:
            rev = list(reversed(sp_names))
            pr = pts[:, rev]
            o2 = layer(B.Points(pr.as_tensor.clone(), pr.space))
            o1 = layer(B.Points(pts[:, sp_names].as_tensor.clone(), pts[:, sp_names].space))
            stats["normalization_permuted"] = stats.get("normalization_permuted", 0) + 1
            for v in sp_names:
                a1, a2 = o1[:, [v]].as_tensor, o2[:, [v]].as_tensor
                if a1.shape != a2.shape or not torch.allclose(a1, a2, rtol=1e-5, atol=1e-6):
                    out.append(viol("C18", "normalization", "result-depends-on-the-order-of-the-variables", "", var=v,
                                    max_abs=None if a1.shape != a2.shape else float((a1 - a2).abs().max())))
                    break
        except Exception as ex:
            out.append(viol("C18", "normalization", "raises:" + type(ex).__name__, innermost_site(ex.__traceback__) + ":permuted",
                            msg=str(ex)[:160]))


def _low_acceptance(case):
    """Reference estimate: does some rejection loop of this case accept < 5 % at some parameter row?"""
    try:
        rng = np.random.default_rng(H(case["rng"], "acc") % (2 ** 32))
        pspace = [tuple(x) for x in (case.get("pspace") or [])]
        rows = case.get("prows") or [[]]
        dom = case["dom"]
        if dom["k"] == "prod":
            return False
        for row in rows[:5]:
            prow = {v: [row[i]] for i, (v, _) in enumerate(pspace) if v in G.free_vars(dom)}
            base = dom["d"] if dom["k"] == "bnd" else dom
            if G.acceptance_floor(base, prow, rng) < 0.05:
                return True
    except Exception:
        return False
    return False


def _has_dependent_product(node):
    if node["k"] == "prod" and (G.free_vars(node["a"]) & {v for v, _ in G.space(node["b"])}):
        return True
    return any(_has_dependent_product(c) for c in G.children(node))


def dom_probe_ok(dom):
    return True


def run_case(case, props=("C01", "C02", "C05", "C06", "C10", "C18"), monitors=True):
    """Execute one case; returns a JSON-able record."""
    out, stats = [], {}
    sim = SimRNG(case["rng"], fault=case.get("fault"))
    mon = Monitors(sim) if monitors else None
    pts = domain = sampler = None
    with sim:
        try:
            pts, domain, sampler = run_entry(case, sim, mon)
        except SimBudgetExceeded as ex:
            if sim.op_calls <= sim.budget_calls and sim.fired:
                # element budget under *active value faults*: an adversarial (legal but
                # probability-zero) acceptance count of 1 makes the library ask for n**2
                # proposals at every nesting level; it would terminate, it is not a liveness defect
                stats["growth_under_faults"] = 1
            elif _low_acceptance(case):
                stats["slow_low_acceptance"] = 1    # a nearly empty piece at these parameter values
            else:
                out.append(viol("C01", "termination", "draw-budget-exceeded", innermost_site(ex.__traceback__),
                                msg=str(ex)[:160]))
        except Exception as ex:
            site = innermost_site(ex.__traceback__)
            if site.endswith("_check_iteration_number") and isinstance(ex, RuntimeError) and (
                    case.get("fault") or giveup_plausible(case.get("entry"))):
                # documented give-up after 20 empty filter rounds; under adversarial draws
                # (every proposal on a lattice / constant) the filter may really accept nothing
                stats["documented_giveup"] = 1
            else:
                out.append(viol("C01", "call", "raises:" + type(ex).__name__, site, msg=str(ex)[:200]))
        finally:
            if mon:
                mon.detach()
        P = None
        if pts is not None:
            try:
                P = check_membership(case, pts, out, stats)
                check_counts(case, pts, sampler, out, stats)
                sim.paused += 1
                try:
                    if "C18" in props:
                        check_bbox_history(case, domain, P, out, stats)
                        check_bbox(case, domain, P, out, stats)
                        check_bbox_tight(case, domain, out, stats)
                        check_normalization(case, domain, pts, P, out, stats)
                        sim.paused -= 1      # the LHS coverage clause draws through the simulator's stream
                        try:
                            check_lhs_coverage(case, domain, out, stats)
                        finally:
                            sim.paused += 1
                    if "C10" in props:
                        check_density_count(case, pts, out, stats)
                        check_volume_direct(case, domain, out, stats)
                    if "C05" in props:
                        check_own_membership(case, domain, pts, P, out, stats)
                        if dom_probe_ok(case["dom"]):
                            check_probe_membership(case, domain, out, stats)
                    if "C06" in props:
                        check_normals(case, domain, pts, P, out, stats)
                finally:
                    sim.paused -= 1
            except Exception as ex:
                out.append(viol("HARNESS", "oracle", type(ex).__name__, "",
                                msg=traceback.format_exc()[-400:]))
    if mon:
        nc, nv = judge_monitors(mon, out)
        stats["contains_judged"] = nc
        stats["volumes_judged"] = nv
    s = sim.summary()
    rec = {
        "violations": [v for v in out if v["property"] in props or v["property"] == "HARNESS"],
        "stats": stats,
        "sim": s,
        "rows": None if pts is None else int(len(pts.as_tensor)) if pts.as_tensor.dim() else 0,
        "features": features(case),
    }
    return rec
