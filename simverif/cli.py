"""Command line of the verification machinery (see DESIGN.md section 10)."""
import argparse
import importlib
import json
import os
import sys


def main():
    ap = argparse.ArgumentParser()
    ap.add_argument("prop", nargs="?")
    ap.add_argument("--tier", default=os.environ.get("VERIF_TIER", "quick"))
    ap.add_argument("--replay")
    ap.add_argument("--expect")
    ap.add_argument("--digests")
    ap.add_argument("--selfcheck", action="store_true")
    ap.add_argument("--workers", type=int)
    a = ap.parse_args()
    import torch
    torch.set_num_threads(1)
    import torchphysics
    src = os.environ.get("VERIF_REPO_SRC", "/repo/src")   # override honoured for tools/sensitivity.py only
    if not torchphysics.__file__.startswith(src):
        print("HARNESS-ERROR: torchphysics resolves to %s, not %s" % (torchphysics.__file__, src))
        return 2
    if a.selfcheck or a.prop is None:
        from .selfcheck import selfcheck
        return selfcheck()
    tier = a.tier if a.tier in ("quick", "thorough") else "quick"
    base = int(os.environ.get("VERIF_SEED", "0") or 0)
    prop = importlib.import_module("simverif.props." + a.prop.lower())
    from .core import runner
    if a.replay:
        return runner.replay(prop, a.replay, a.expect)
    if a.digests:
        return runner.digests(prop, tier, base, [int(x) for x in a.digests.split(",") if x])
    return runner.run_property(prop, tier, base, a.workers)


if __name__ == "__main__":
    sys.exit(main())
