"""lawsim -- samplers follow their named laws (C11).  A law is a statement about
the push-forward of the draw stream; the simulator owns the stream (fault-free
here: an adversarial draw is by construction not uniform), so a statistical
alarm is a replayable case, and the false-alarm budget is fixed (alpha = 1e-9
per test)."""
import math
import traceback
import warnings

import numpy as np
import torch
from scipy import stats as sps

from .core.simrng import SimRNG, SimBudgetExceeded
from .core.seed import H
from .ref import geometry as G
from . import tpbuild as B
from .geosim import viol, innermost_site

warnings.filterwarnings("ignore")
ALPHA = 1e-9


def cell_index(X, lo, hi, g):
    idx = np.floor((X - lo) / np.maximum(hi - lo, 1e-12) * g).astype(int)
    idx = np.clip(idx, 0, g - 1)
    out = np.zeros(len(X), dtype=np.int64)
    for j in range(X.shape[1]):
        out = out * g + idx[:, j]
    return out


def two_sample(a_pts, b_pts, g):
    """chi-square homogeneity + largest standardised residual (Bonferroni); returns dict."""
    lo = np.minimum(a_pts.min(0), b_pts.min(0))
    hi = np.maximum(a_pts.max(0), b_pts.max(0))
    ncell = g ** a_pts.shape[1]
    a = np.bincount(cell_index(a_pts, lo, hi, g), minlength=ncell).astype(float)
    b = np.bincount(cell_index(b_pts, lo, hi, g), minlength=ncell).astype(float)
    M, R = a.sum(), b.sum()
    e = M * b / R
    small = e < 20
    if small.any():
        a = np.concatenate([a[~small], [a[small].sum()]])
        e = np.concatenate([e[~small], [e[small].sum()]])
    keep = e > 0
    a, e = a[keep], e[keep]
    k = len(a)
    if k < 2:
        return None
    var = e * (1 + M / R)
    z = (a - e) / np.sqrt(var)
    chi2 = float((z ** 2).sum())
    thr = float(sps.chi2.isf(ALPHA, k - 1))
    zthr = float(sps.norm.isf(ALPHA / (2 * k)))
    return {"chi2": chi2, "thr": thr, "df": k - 1, "zmax": float(np.abs(z).max()), "zthr": zthr, "cells": k}


def _coords(pts, dom):
    t = pts.as_tensor.detach().double().numpy()
    d = sum(dd for _, dd in G.space(dom))
    return t[:, :d]


def run_c11(case):
    out, stats = [], {}
    dom = case["dom"]
    pspace = [tuple(p) for p in case.get("pspace") or []]
    prow = case.get("prow") or []
    sim = SimRNG(case["rng"], fault=None, budget_calls=200000, budget_elems=int(2e9))
    rng = np.random.default_rng(H(case["rng"], "ref") % (2 ** 32))
    row = {v: [prow[i]] for i, (v, _) in enumerate(pspace) if i < len(prow)}
    law = case["law"]
    with sim:
        try:
            domain = B.build(dom)
            params = B.params_points(pspace, [prow] if prow else []) if case["law"] != "lhs" else None
            sim.begin_op()
            if law == "uniform":
                M, n = case["M"], case["n"]
                chunks = []
                got = 0
                extra = case.get("prows_extra") if (prow and case.get("mode") != "d") else None
                if extra:
                    # several parameter rows in one call; the block of the judged row is tested
                    j = int(case.get("prow_index", 0)) % (len(extra) + 1)
                    rows_all = [list(x) for x in extra[:j]] + [list(prow)] + [list(x) for x in extra[j:]]
                    params = B.params_points(pspace, rows_all)
                    stats["multi_row_calls"] = 1
                while got < M:
                    if case.get("mode") == "d":
                        p = domain.sample_random_uniform(d=float(case["d"]), params=params)
                    else:
                        p = domain.sample_random_uniform(n=n, params=params)
                    c = _coords(p, dom)
                    if extra:
                        if len(c) != n * len(rows_all):
                            out.append(viol("C11", "uniform", "wrong-number-of-points", "", rows=len(c), n=n, k=len(rows_all)))
                            return _rec(case, out, stats, sim)
                        c = c[j * n:(j + 1) * n]
                    chunks.append(c)
                    got += len(c)
                    if len(c) == 0:
                        break
                A = np.concatenate(chunks, axis=0)
                stats["points"] = len(A)
                if G.is_boundary(dom):
                    solid = dom["d"]
                    if solid["k"] == "iv":
                        a_, b_ = G.ev(solid["a"], _one(row), 1)[0], G.ev(solid["b"], _one(row), 1)[0]
                        left = int(np.sum(np.abs(A[:, 0] - a_) < 1e-4))
                        z = (left - len(A) / 2) / math.sqrt(len(A) / 4)
                        stats["tests"] = 1
                        stats["max_abs_z"] = abs(z)
                        if abs(z) > sps.norm.isf(ALPHA / 2):
                            out.append(viol("C11", "uniform", "endpoint-frequencies-off", "", z=z, left=left, n=len(A)))
                        return _rec(case, out, stats, sim)
                    Bp = G.boundary_sample(solid, row, 10 * len(A), rng)[G.space(solid)[0][0]]
                else:
                    ref = G.uniform_sample(dom, row, min(10 * len(A), 600000), rng)
                    Bp = np.concatenate([ref[v] for v, _ in G.space(dom)], axis=1)
                dimn = A.shape[1]
                g = {1: 24, 2: 6, 3: 4, 4: 3}[dimn]
                res = two_sample(A, Bp, g)
                if res is None:
                    return _rec(case, out, stats, sim)
                stats["tests"] = 1
                stats["chi2_ratio"] = res["chi2"] / res["thr"]
                stats["cells"] = res["cells"]
                if res["chi2"] > res["thr"]:
                    out.append(viol("C11", "uniform", "chi-square-homogeneity-rejected", "", **res))
                elif res["zmax"] > res["zthr"]:
                    out.append(viol("C11", "uniform", "single-cell-share-off", "", **res))
            elif law == "gauss":
                import torchphysics as tp
                n, M = case["n"], case["M"]
                s = tp.samplers.GaussianSampler(domain, n_points=n, mean=list(case["mean"]), std=float(case["std"]))
                chunks = []
                for _ in range(max(1, M // n)):
                    chunks.append(_coords(s.sample_points(params), dom))
                A = np.concatenate(chunks, axis=0)
                stats["points"] = len(A)
                # reference: normal draws truncated to the domain by the margin
                d = A.shape[1]
                refs = []
                need = 10 * len(A)
                tot = 0
                for _ in range(400):
                    z = rng.normal(size=(200000, d)) * case["std"] + np.asarray(case["mean"])
                    P = {G.space(dom)[0][0]: z}
                    for v, val in row.items():
                        P[v] = np.full((len(z), 1), float(val[0]))
                    keep = G.margin(dom, P) >= 0
                    refs.append(z[keep])
                    tot += int(keep.sum())
                    if tot >= need:
                        break
                Bp = np.concatenate(refs, axis=0)
                res = two_sample(A, Bp, {1: 24, 2: 6, 3: 4}[d])
                if res is not None:
                    stats["tests"] = 1
                    stats["chi2_ratio"] = res["chi2"] / res["thr"]
                    if res["chi2"] > res["thr"]:
                        out.append(viol("C11", "gaussian", "chi-square-homogeneity-rejected", "", **res))
                    elif res["zmax"] > res["zthr"]:
                        out.append(viol("C11", "gaussian", "single-cell-share-off", "", **res))
            elif law == "lhs":
                import torchphysics as tp
                n = case["n"]
                s = tp.samplers.LHSSampler(domain, n_points=n)
                rows_all = case.get("prows") or ([prow] if prow else [[]])
                params_all = B.params_points(pspace, [r_ for r_ in rows_all if r_])
                for rep in range(case.get("reps", 5)):
                    Aall = _coords(s.sample_points(params_all), dom)
                    stats["tests"] = stats.get("tests", 0) + 1
                    if len(Aall) != n * len(rows_all):
                        out.append(viol("C11", "lhs", "wrong-number-of-points", "", rows=len(Aall), n=n, k=len(rows_all)))
                        break
                    bad = False
                    for ri, prow_i in enumerate(rows_all):
                        # every parameter row has its own box
                        one = _one({v: [prow_i[i]] for i, (v, _) in enumerate(pspace)})
                        bx, _ = G.box(dom, one)
                        A = Aall[ri * n:(ri + 1) * n]
                        for ax in range(A.shape[1]):
                            lo, hi = bx[0, 2 * ax], bx[0, 2 * ax + 1]
                            frac = (A[:, ax] - lo) / (hi - lo) * n
                            slab = np.clip(np.floor(frac).astype(int), 0, n - 1)
                            cnt = np.bincount(slab, minlength=n)
                            if not (cnt == 1).all():
                                # points within float rounding of a slab border may land in the neighbour
                                near = np.abs(frac - np.round(frac)) < 1e-3
                                if not near.any() or int((cnt != 1).sum()) > 2 * int(near.sum()):
                                    out.append(viol("C11", "lhs", "slab-without-exactly-one-point", "", axis=ax,
                                                    empty=int((cnt == 0).sum()), n=n, row=ri, k=len(rows_all)))
                                    bad = True
                                    break
                        if bad:
                            break
                    if bad:
                        break
            elif law == "grid":
                n = case["n"]
                extra = case.get("prows_extra") if prow else None
                if extra:
                    # the raw grid call with several parameter rows (supported for a moving, otherwise fixed shape):
                    # the block of the judged row must be the evenly spread grid of THAT row
                    j = int(case.get("prow_index", 0)) % (len(extra) + 1)
                    rows_all = [list(x) for x in extra[:j]] + [list(prow)] + [list(x) for x in extra[j:]]
                    p = domain.sample_grid(n=n, params=B.params_points(pspace, rows_all))
                    A = _coords(p, dom)
                    stats["multi_row_calls"] = 1
                    # rows are laid out row-major in equal blocks. (The block is n points for parallelograms and
                    # triangles and n*k -- k copies of the grid -- for circles, whose own sample_grid already tiles
                    # over the parameter rows: F06 of DESIGN 8.4, a count the properties do not fix for raw domain
                    # calls; the law of every block is what C11 states.)
                    if len(A) % len(rows_all) or len(A) < n * len(rows_all):
                        out.append(viol("C11", "grid", "wrong-number-of-points", "", rows=len(A), n=n, k=len(rows_all)))
                        return _rec(case, out, stats, sim)
                    m = len(A) // len(rows_all)
                    A = A[j * m:(j + 1) * m]
                    n = m
                else:
                    p = domain.sample_grid(n=n, params=params)
                    A = _coords(p, dom)
                stats["points"] = len(A)
                if G.is_boundary(dom):
                    Bp = G.boundary_sample(dom["d"], row, 200000, rng)[G.space(dom["d"])[0][0]]
                else:
                    ref = G.uniform_sample(dom, row, 200000, rng)
                    Bp = np.concatenate([ref[v] for v, _ in G.space(dom)], axis=1)
                lo, hi = Bp.min(0), Bp.max(0)
                g = 3
                a = np.bincount(cell_index(A, lo, hi, g), minlength=g ** A.shape[1]) / len(A)
                b = np.bincount(cell_index(Bp, lo, hi, g), minlength=g ** A.shape[1]) / len(Bp)
                dev = float(np.abs(a - b).max())
                stats["tests"] = 1
                stats["max_grid_dev_x_sqrt_n"] = dev * math.sqrt(n)
                # discretisation bound: c / sqrt(n) (cell perimeter x grid spacing / measure), c calibrated then doubled
                bound = case.get("c", 1.6) / math.sqrt(n) + 2.0 / n
                if dev > bound:
                    out.append(viol("C11", "grid", "coarse-cell-share-off", "", dev=dev, bound=bound, n=n))
        except SimBudgetExceeded as ex:
            out.append(viol("C11", "run", "draw-budget-exceeded", innermost_site(ex.__traceback__)))
        except Exception as ex:
            out.append(viol("C11", "run", "raises:" + type(ex).__name__, innermost_site(ex.__traceback__),
                            msg=traceback.format_exc()[-400:]))
    return _rec(case, out, stats, sim)


def _one(row):
    one = {v: np.asarray(val, float).reshape(1, -1) for v, val in row.items()}
    return one or {"_": np.zeros((1, 1))}


def _rec(case, out, stats, sim):
    dom = case["dom"]
    ks = G.kinds(dom)
    feats = {"cell": "%s|%s|%s" % (case["law"], "+".join(sorted(set(ks))), case.get("mode", "n")),
             "law": case["law"], "kinds": "+".join(sorted(set(ks))), "root": dom["k"], "mode": case.get("mode", "n"),
             "boundary": G.is_boundary(dom), "faulty": False,
             "overlapping_union": _has_overlapping_union(dom, case), "n_small": case.get("n", 0) < 2000,
             "bool_boundary": _has_bool_boundary(dom)}
    rec = {"violations": out, "stats": stats, "sim": sim.summary(), "steps": 0, "rows": stats.get("points"),
           "features": feats, "digest_extra": [stats.get("points"), round(stats.get("chi2_ratio", 0), 6)]}
    rec["nontrivial"] = stats.get("tests", 0) > 0
    rec["key"] = "%s|%s" % (feats["cell"], case.get("n"))
    rec["outcome"] = dict(stats)
    return rec


def _has_bool_boundary(node):
    if node["k"] == "bnd" and any(k_ in ("union", "cut", "inter") for k_ in G.kinds(node["d"])):
        return True
    return any(_has_bool_boundary(c) for c in G.children(node))


def _has_overlapping_union(node, case=None):
    """A union without the disjoint flag whose operands really overlap at the judged parameter row
    (decided by the reference model on 4000 uniform points of each operand)."""
    if node["k"] == "union" and not node.get("disjoint"):
        if case is None:
            return True
        try:
            pspace = [tuple(p) for p in case.get("pspace") or []]
            prow = case.get("prow") or []
            row = {v: [prow[i]] for i, (v, _) in enumerate(pspace) if i < len(prow)}
            rng = np.random.default_rng(12345)
            for x, y in ((node["a"], node["b"]), (node["b"], node["a"])):
                P = G.uniform_sample(x, row, 4000, rng)
                for v, val in row.items():
                    P[v] = np.full((4000, 1), float(val[0]))
                if bool((G.margin(y, P) >= 0).any()):
                    return True
        except Exception:
            return True
    return any(_has_overlapping_union(c, case) for c in G.children(node))
