#!/venv/bin/python
"""tools/dbg.py <tag> <index> | <replay.json> : run one geometry case with a full traceback."""
import sys, json, traceback
sys.path.insert(0, "/verif")
import torch; torch.set_num_threads(1)
import warnings; warnings.filterwarnings("ignore")
from simverif.props import geo_cases as GC
from simverif import geosim, tpbuild as B
from simverif.core.seed import H
from simverif.core.simrng import SimRNG
if sys.argv[1].endswith(".json"):
    case = json.load(open(sys.argv[1]))
else:
    case = GC.gen_case(sys.argv[1], H(0, sys.argv[1], int(sys.argv[2])))
print(json.dumps(case["dom"])); print(case["entry"], case["pspace"], case["prows"], case["fault"])
sim = SimRNG(case["rng"], fault=case.get("fault"))
with sim:
    try:
        pts, dom, s = geosim.run_entry(case, sim)
        print("rows", pts.as_tensor.shape, list(pts.space.keys()))
    except Exception:
        traceback.print_exc()
rec = geosim.run_case(case)
for v in rec["violations"]: print(v)
