#!/venv/bin/python
"""tools/onecase.py <PROP> <VERIF_SEED> <index> [--trace]: generate and run one case of a property."""
import sys, json, importlib, traceback
sys.path.insert(0, "/verif")
import torch; torch.set_num_threads(1)
import warnings; warnings.filterwarnings("ignore")
from simverif.core.seed import H
prop = importlib.import_module("simverif.props." + sys.argv[1].lower())
case = prop.gen_case(H(int(sys.argv[2]), prop.ID, int(sys.argv[3])), "quick")
print(json.dumps({k: v for k, v in case.items() if k not in ("seed", "rng", "format")})[:3000])
rec = prop.run_case(case)
for v in rec["violations"]: print("VIOL", json.dumps(v)[:600])
print(rec["stats"])
json.dump(case, open("/tmp/onecase.json", "w"))
