#!/usr/bin/env python3
"""Regenerates /verif/MANIFEST.json from the table below (hand-run)."""
import json
props = [json.loads(l) for l in open('/verif/properties.jsonl')]
NA = {
 "C03": "pure stateless function of (expression, inputs): no draw, state, fault, schedule or history for a simulator to own; deciding it needs symbolic/differential testing, a different technique (DESIGN.md section 7)",
 "C08": "stateless row-wise maps; permutation/batch invariance is a metamorphic property of a pure function (DESIGN.md section 7)",
 "C12": "value algebra of a table type with a single holder: no schedule, draw or fault (DESIGN.md section 7)",
 "C20": "shift equivariance / resolution consistency of a stateless linear map (DESIGN.md section 7)",
}
TECH = "deterministic simulation with fault injection: "
CHECKS = {
 "C01": ("geosim", "exploration", "seeded search over domain expressions x entry points x SimRNG fault plans (adversarial legal draws, spurious rejections); every returned row judged by the float64 reference model at its own parameter row; termination as a deterministic draw budget once faults stop", TECH + "owned RNG seam + value faults + spurious rejections, reference-model oracle, draw-budget liveness"),
 "C02": ("geosim+samplersim", "exploration", "seeded histories (len / sample with 0..3 external parameter rows / repeated calls) over sampler expressions with recording proxies on every node, judged by the R-count model; plus row-count/pairing judgement of the C01 geometry cases", TECH + "operation histories under an owned RNG with value faults and spurious rejections, reference model R-count"),
 "C05": ("geosim", "exploration", "partial claim: membership answers computed during simulated sampling (monitor on every node), the library's own samples, and riding probe points, against the float64 margin outside a 1e-3 band", TECH + "membership monitor riding on simulated sampling (adversarial draws reach corners/edge ends) + reference margin"),
 "C06": ("geosim", "exploration", "normals at the library's own boundary samples incl. measure-zero corner/edge-end draws injected at the RNG seam; finite, unit, outward by a two-sided step test against the reference margin", TECH + "corner-producing draw faults at the RNG seam + reference-margin step oracle"),
 "C10": ("geosim+volumesim", "exploration", "partial claim: every volume the library computes during simulated sampling and the root volume against closed forms/composition rules; density->count exactly for closed-form primitives, in expectation (pooled z-test) for rejection-based shapes; set_volume/flag histories", TECH + "volume monitor on simulated density sampling + count oracles over owned draw streams"),
 "C07": ("trainsim+donsim", "exploration", "refinement of Lightning-driven training (real Solver under a real Trainer, trainer options = the schedule) against the reference loop R-loop over training histories: per-step learnable state, lr, draw counts, call schedule, validation purity", TECH + "two-world refinement check under an owned RNG; the simulator chooses Lightning's validation/sanity/logging schedule"),
 "C19": ("trainsim+donsim", "fault_enumeration", "per configuration every single crash point (step x hook) is enumerated: crash, only files survive, rebuild from scratch with another init seed, resume to N, bitwise comparison with the uninterrupted run; plus multi-crash schedules and weight-file load/identity checks", TECH + "crash-point enumeration with restart from durable state only, bitwise refinement against the uninterrupted run"),
 "C04": ("condsim+donsim", "exploration", "histories of evaluations of a condition whose sampler is wrapped by a recording proxy and whose residual is a probe: arguments by name at exactly the sampled rows of this evaluation, analytic derivatives, documented reduction; evaluation counts straddle the static resample interval", TECH + "recording-proxy seam on sampler draws + probe residual + closed-form model; R-reduce reference"),
 "C09": ("deeponetsim", "exploration", "histories of fix/forward operations on a DeepONet (state = cached branch features) judged after every forward by the explicit inner product of independently computed features of the most recently fixed functions, batch-order invariance and the plain-network twin (outputs, 1st/2nd input derivatives, parameter gradients)", TECH + "operation histories over cached state against the R-twin reference model (no draw/fault applies once samplers are static grids: stated)"),
 "C14": ("condsim+donsim", "exploration", "schedules of construct/evaluate events over conditions sharing user objects, every operation replayed in a solo world built from the same recipe under the same per-operation draw stream; user containers compared by object identity; repeatability of static conditions", TECH + "two-world isolation check over interleaved construct/evaluate schedules with reseeded draw streams"),
 "C11": ("lawsim", "exploration", "laws as statements about the push-forward of the simulator-owned (fault-free) draw stream: two-sample chi-square + largest cell residual (alpha 1e-9 each) against an independent reference sampler for uniform and Gaussian laws, exact slab occupancy for LHS, calibrated unevenness bound for grids; a statistical alarm is a replayable case", TECH + "owned draw stream (replayable statistical decisions, fixed false-alarm budget) + independent reference sampler"),
 "C17": ("partialsim", "exploration", "histories of repeated / nested partial evaluation under an owned RNG: free variables, membership, volume, box and sampling agree with the original at the fixed values; behavioural snapshots show every earlier domain unchanged", TECH + "partial-evaluation histories with behavioural snapshots; sampling agreement under owned draws; reference AST substitution"),
 "C13": ("objsim", "exploration", "degenerate use (no draws, no faults): interleaved operation histories over several holders of possibly shared state (wrapper, re-wrap, partial evaluations, deep copies) judged against the R-holders reference model; isolation and name-based routing", TECH + "operation histories over shared-state holders against a reference model (history half of the technique only; no fault applies)"),
 "C16": ("loadersim", "exploration", "one pass over a loader as a history of batches under simulator-chosen shuffle permutations; unique tags make every row attributable: pairing, batch size, coverage, full-data-set aggregation", TECH + "owned shuffle permutations (identity/reverse/rotate/swap faults) + tagged-data conservation/pairing oracle"),
 "C15": ("samplersim", "exploration", "seeded call histories on static samplers (any interleaving of sample/next/len/re-make_static) judged by the R-static age-set model with freshness observed at the seam; adaptive samplers with generated loss vectors judged row by row against R-adaptive using the fresh draw and the uniform numbers observed at the seam", TECH + "call histories under an owned RNG, state-machine reference models"),
 "C18": ("geosim", "exploration", "partial claim: every point produced in simulated sampling lies in bounding_box(params); tightness for primitives; NormalizationLayer maps samples into [-1,1]^d", TECH + "enclosure monitor riding on simulated sampling (edge draws reach the extreme points)"),
}
ENG = {
 "geosim": ("simverif/geosim.py", "seeded simulation of sampling under an owned draw stream (SimRNG) with value faults and spurious rejections; monitors on membership/volume/box; float64 reference geometry R-geo as oracle"),
 "trainsim": ("simverif/trainsim.py", "real Solver + real pl.Trainer as world A with simulator-chosen trainer options, crash callbacks and private tmpfs directory; R-loop reference optimisation loop as world B"),
 "condsim": ("simverif/condsim.py", "conditions with recording sampler proxies, probe residuals and closed-form models; shared world vs solo worlds"),
 "deeponetsim": ("simverif/deeponetsim.py", "fix/forward histories on DeepONets with a plain twin network"),
 "lawsim": ("simverif/lawsim.py", "law tests on simulator-owned fault-free draw streams against the R-geo reference samplers"),
 "partialsim": ("simverif/partialsim.py", "partial-evaluation histories of parameter-dependent domains"),
 "objsim": ("simverif/objsim.py", "interleaved operations on holders of shared UserFunction state; R-holders model"),
 "loadersim": ("simverif/loadersim.py", "tagged data sets, one epoch as a batch history, simulator-owned shuffle permutations"),
 "donsim": ("simverif/donsim.py", "physics-informed DeepONet conditions on real small DeepONets driven by the Solver's protocol (training steps with the step number, validation steps without, simulated optimiser steps); solo worlds and a direct oracle on a twin network"),
 "volumesim": ("simverif/volumesim.py", "pooled density counts against the true measure; set_volume and partial-evaluation histories"),
 "samplersim": ("simverif/samplersim.py", "operation histories on sampler expressions / static / adaptive samplers with recording proxies; R-count, R-static, R-adaptive reference models"),
}
import os, importlib
checks = []
serves = {}
for pid, (eng, level, text, tech) in sorted(CHECKS.items()):
    if not os.path.exists('/verif/simverif/props/%s.py' % pid.lower()):
        continue
    for e in eng.split("+"):
        serves.setdefault(e, []).append(pid)
    checks.append({"property_id": pid, "quick_cmd": "./check %s --tier quick" % pid, "thorough_cmd": "./check %s --tier thorough" % pid,
                   "evidence_file": "evidence/%s.json" % pid, "replay_cmd_template": "./check %s --replay {path}" % pid,
                   "engine": eng, "level_claimed": {"category": level, "text": text, "design_ref": "DESIGN.md section 6 " + pid},
                   "level_note": "sampling, not enumeration: a clean batch is evidence, not proof; conditioning envelope of DESIGN.md section 5; reference models are trusted (own unit tests); known findings listed in known_findings.json are reported as KNOWN-FINDING",
                   "technique": tech})
claimed = {c["property_id"] for c in checks}
man = {"version": 1, "setup_cmd": "./check --selfcheck",
 "hooks": {"guard": "TORCHPHYSICS_VERIF", "enable": "no source hook exists in /repo: every seam is reached by replacing module attributes from the check process (checks export TORCHPHYSICS_VERIF=1 only for uniformity)",
           "baseline_off_cmd": "cd /repo && /venv/bin/python -m pytest -ra -q -p no:cacheprovider --timeout=900 --continue-on-collection-errors",
           "source_commits": [], "add_only": True},
 "engines": [{"name": e, "path": ENG[e][0], "serves_properties": sorted(v), "kind_free_text": ENG[e][1]} for e, v in sorted(serves.items())],
 "checks": checks,
 "not_applicable": [{"property_id": p["id"], "reason": NA.get(p["id"], "check not built yet in this round (planned, see DESIGN.md section 12)")} for p in props if p["id"] not in claimed],
 "notes": "fix: commits in /repo are unguarded repairs of genuine defects found by these checks; they are listed with their witnesses in known_findings.json (status fixed). No guarded hook commit exists."}
json.dump(man, open('/verif/MANIFEST.json', 'w'), indent=1)
print(len(checks), "checks;", len(man["not_applicable"]), "not applicable")
