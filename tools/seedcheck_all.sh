#!/bin/bash
# tools/seedcheck_all.sh [jobs] : re-run every stored seeded change (seeded/<id>/patch.diff) against the CURRENT checks
# and the CURRENT /repo (scratch copies under /dev/shm), print one line per change. Regression test of the detection matrix.
J=${1:-4}
cd /verif
ls seeded | while read id; do
  p=$(python3 -c "import json;print(json.load(open('seeded/$id/meta.json'))['breaks_property'])" 2>/dev/null) || continue
  echo "$id $p"
done > /dev/shm/seed_all.lst
cat /dev/shm/seed_all.lst | xargs -P $J -L 1 bash -c 'tools/seedcheck.sh $0 - $1 > /dev/shm/seedall_$0.log 2>&1; echo "$0 $1 $(tail -1 /dev/shm/seedall_$0.log | python3 -c "import sys,json; d=json.loads(sys.stdin.read()); print(d[\"quick_checks_exit\"], d[\"demo_exit_with_change\"], d[\"demo_exit_without_change\"])" 2>/dev/null || echo ERROR)"'
