#!/bin/bash
# runs every registered quick check in /verif against /repo (regenerates evidence/*.json)
cd /verif
for p in C01 C02 C04 C05 C06 C07 C09 C10 C11 C13 C14 C15 C16 C17 C18 C19; do
  t0=$(date +%s); out=$(./check $p --tier quick 2>&1); rc=$?; t1=$(date +%s)
  echo "$p rc=$rc wall=$((t1-t0))s $(echo "$out" | tail -1 | cut -c1-150)"
  if [ $rc -ne 0 ]; then echo "$out" | grep -E "VIOLATION|signature|HARNESS" | head -6 | cut -c1-300; fi
done
