#!/usr/bin/env python3
"""tools/determinism.py [props...] [--n 40]: same VERIF_SEED values twice, in fresh interpreters, under
PYTHONHASHSEED 0 and 12345, and compare the run digests (draw logs incl. every drawn tensor, violations, row counts)."""
import json, os, subprocess, sys
args = [a for a in sys.argv[1:] if not a.startswith("--")]
n = 40
if "--n" in sys.argv:
    n = int(sys.argv[sys.argv.index("--n") + 1]); args = [a for a in args if a != str(n)]
props = args or "C01 C02 C04 C05 C06 C07 C09 C10 C11 C13 C14 C15 C16 C17 C18 C19".split()
bad = 0
for p in props:
    idx = ",".join(map(str, range(n if p not in ("C11", "C19") else min(n, 8))))
    outs = []
    for hs, seed in (("0", "0"), ("12345", "0"), ("777", "0")):
        env = dict(os.environ, PYTHONHASHSEED=hs, VERIF_SEED=seed)
        r = subprocess.run(["/verif/check", p, "--digests", idx], capture_output=True, text=True, env=env)
        try:
            outs.append(json.loads(r.stdout.strip().splitlines()[-1]))
        except Exception:
            print(p, "FAILED to produce digests", r.stderr[-300:]); outs.append({}); bad += 1
    diff = [i for i in outs[0] if not (outs[0][i] == outs[1].get(i) == outs[2].get(i))]
    print("%s: %d cases x 3 interpreters/hash seeds -> %s" % (p, len(outs[0]), "identical" if not diff else "DIFFER at %s" % diff[:5]))
    bad += len(diff)
sys.exit(1 if bad else 0)
