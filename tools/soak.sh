#!/bin/bash
# tools/soak.sh "<props>" <first seed> <last seed> : run quick checks over a range of VERIF_SEEDs (no determinism leg)
for s in $(seq $2 $3); do for p in $1; do
  out=$(VERIF_EVIDENCE_DIR=/dev/shm/soak_ev VERIF_SEED=$s VERIF_NO_DET=1 ./check $p --tier quick 2>&1); rc=$?
  echo "seed=$s $p rc=$rc $(echo "$out" | tail -1 | cut -c1-150)"
  if [ $rc -ne 0 ]; then echo "$out" | grep -E "VIOLATION|signature|HARNESS" | cut -c1-400; fi
done; done
rm -rf /dev/shm/soak_ev
