#!/usr/bin/env python3
"""tools/sensitivity.py [ids...] -- break a property on purpose in a scratch copy of
/repo/src (never /repo), confirm that the registered quick check reports a violation
within its budget, delete the copy.  Mutations: tools/mutations.json."""
import json, os, shutil, subprocess, sys, time
MUT = json.load(open("/verif/tools/mutations.json"))
want = set(sys.argv[1:])
results = []
for m in MUT:
    if want and m["id"] not in want and m["property"] not in want:
        continue
    root = "/dev/shm/verif_mut_%s" % m["id"]
    shutil.rmtree(root, ignore_errors=True)
    shutil.copytree("/repo/src", root + "/src")
    ok = True
    for e in m["edits"]:
        p = os.path.join(root, "src", e["file"])
        s = open(p).read()
        if s.count(e["old"]) < 1:
            print("MUTATION-DOES-NOT-APPLY", m["id"], e["file"]); ok = False; break
        open(p, "w").write(s.replace(e["old"], e["new"], 1))
    if not ok:
        results.append((m["id"], m["property"], "n/a")); shutil.rmtree(root, ignore_errors=True); continue
    env = dict(os.environ, VERIF_EVIDENCE_DIR=root + "/ev", VERIF_REPO_SRC=root + "/src", VERIF_NO_DET="1", VERIF_SEED=os.environ.get("VERIF_SEED", "0"))
    if m.get("cases"):
        env["VERIF_CASES"] = str(m["cases"])
    t0 = time.time()
    p = subprocess.run(["/verif/check", m["property"], "--tier", "quick"], capture_output=True, text=True, env=env, cwd="/verif")
    viol = [l for l in p.stdout.splitlines() if l.startswith("VIOLATION")]
    res = "CAUGHT" if (p.returncode == 1 and viol) else ("exit %d" % p.returncode)
    print("%-28s %-4s %-8s %5.0fs  %s" % (m["id"], m["property"], res, time.time() - t0, (viol[0] if viol else p.stdout.strip().splitlines()[-1])[:110]))
    sys.stdout.flush()
    results.append((m["id"], m["property"], res))
    shutil.rmtree(root, ignore_errors=True)
json.dump(results, open("/verif/tools/sensitivity_last.json", "w"), indent=1)
