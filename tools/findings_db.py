#!/usr/bin/env python3
"""Maintains /verif/known_findings.json (hand-run tool; checks never write this file).
usage: tools/findings_db.py add-fixed <id> <props,comma> <commit> <what> [witness files...]
       tools/findings_db.py add-open  <id> <props,comma> <what> <match-json> [witness files...]"""
import json, sys, os
P = "/verif/known_findings.json"
db = json.load(open(P))
def wit(files):
    out = []
    for f in files:
        prop = os.path.basename(f).split("-")[1]
        out.append({"property": prop, "file": f})
    return out
cmd = sys.argv[1]
if cmd == "add-fixed":
    fid, props, commit, what = sys.argv[2:6]
    props = props.split(",")
    e = {"id": fid, "properties": props, "status": "fixed", "commit": commit, "what": what,
         "record": "fixed: property=%s %s %s" % (props[0], commit, what), "match": [], "witnesses": wit(sys.argv[6:])}
elif cmd == "add-open":
    fid, props, what, match = sys.argv[2:6]
    props = props.split(",")
    e = {"id": fid, "properties": props, "status": "open", "what": what, "match": json.loads(match), "witnesses": wit(sys.argv[6:])}
db["findings"] = [f for f in db["findings"] if f["id"] != e["id"]] + [e]
db["findings"].sort(key=lambda f: f["id"])
json.dump(db, open(P, "w"), indent=1)
print("ok", e["id"], len(db["findings"]))
