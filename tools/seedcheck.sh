#!/bin/bash
# tools/seedcheck.sh <ID> <worktree|-> [props...] : confirm a seeded change and run the registered quick checks against it.
# The patch is applied to a scratch COPY of the CURRENT /repo (never /repo itself); everything is stored under seeded/<ID>/.
ID=$1; WT=$2; shift 2; PROPS="$@"
OUT=/verif/seeded/$ID; mkdir -p $OUT
if [ "$WT" != "-" ]; then
  cp $WT/_seed/demo.py $WT/_seed/notes.md $OUT/ 2>/dev/null
  git -C $WT diff -- src > $OUT/patch.diff
fi
S=/dev/shm/seed_$ID; rm -rf $S; mkdir -p $S; cp -r /repo/src /repo/tests /repo/setup.cfg /repo/setup.py /repo/pyproject.toml $S/ 2>/dev/null
cd $S
echo "== demo without the change"; PYTHONPATH=$S/src /venv/bin/python -W ignore $OUT/demo.py > $OUT/demo_without.txt 2>&1; D0=$?; tail -1 $OUT/demo_without.txt | cut -c1-200; echo "exit $D0"
patch -p1 -s < $OUT/patch.diff || { echo "PATCH DOES NOT APPLY to the current tree"; exit 3; }
if [ -z "$SKIP_SUITE" ]; then
echo "== suite with the change"; PYTHONPATH=$S/src /venv/bin/python -m pytest -q -p no:cacheprovider tests --deselect tests/tests_plots/test_animation.py 2>&1 | tail -1 | tee $OUT/suite_with_change.txt
fi
echo "== demo with the change"; PYTHONPATH=$S/src /venv/bin/python -W ignore $OUT/demo.py > $OUT/demo_with.txt 2>&1; D1=$?; tail -1 $OUT/demo_with.txt | cut -c1-200; echo "exit $D1"
cd /verif
RES=""
for Q in $PROPS; do
  VERIF_EVIDENCE_DIR=$S/ev VERIF_REPO_SRC=$S/src VERIF_NO_DET=1 ./check $Q --tier quick > $OUT/check_$Q.txt 2>&1; RC=$?
  echo "== check $Q against the changed tree: exit $RC"; grep -E "^VIOLATION|signature" $OUT/check_$Q.txt | head -4 | cut -c1-300
  RES="$RES $Q:$RC"
done
rm -rf $S
echo "{\"id\": \"$ID\", \"demo_exit_with_change\": $D1, \"demo_exit_without_change\": $D0, \"suite_with_change\": \"$(cat $OUT/suite_with_change.txt | tr -d '\n=' | cut -c1-60)\", \"quick_checks_exit\": \"$RES\"}" > $OUT/result.json
cat $OUT/result.json
