#!/bin/bash
# runs every thorough command once (VERIF_SEED given or 0) and reports exit codes and wall time
for p in ${1:-C13 C16 C09 C14 C04 C07 C19 C17 C10 C18 C05 C02 C15 C06 C01 C11}; do
  t0=$(date +%s); out=$(VERIF_EVIDENCE_DIR=/dev/shm/thorough_ev VERIF_NO_DET=1 ./check $p --tier thorough 2>&1); rc=$?; t1=$(date +%s)
  echo "$p rc=$rc wall=$((t1-t0))s $(echo "$out" | tail -1 | cut -c1-160)"
  if [ $rc -ne 0 ]; then echo "$out" | grep -E "VIOLATION|signature|HARNESS" | head -8 | cut -c1-400; fi
done
rm -rf /dev/shm/thorough_ev
