#!/venv/bin/python
"""tools/mkwitness.py <PROP> <case.json|-> <out.json> [kind-substring]
Runs the case with the property's module on the current tree and stores it
with the violation it produces as ``expect`` (a witness / regression file)."""
import importlib, json, sys
sys.path.insert(0, "/verif")
import torch; torch.set_num_threads(1)
prop = importlib.import_module("simverif.props." + sys.argv[1].lower())
case = json.load(sys.stdin if sys.argv[2] == "-" else open(sys.argv[2]))
case["property"] = prop.ID
case.pop("expect", None); case.pop("minimised_from", None)
rec = prop.run_case(case)
want = sys.argv[4] if len(sys.argv) > 4 else ""
vs = [v for v in rec["violations"] if v["property"] == prop.ID and want in (v["clause"] + "|" + v["kind"] + "|" + v.get("site", ""))]
if not vs:
    print("no matching violation; got", rec["violations"]); sys.exit(1)
v = vs[0]
case["expect"] = {"property": v["property"], "clause": v["clause"], "kind": v["kind"], "site": v.get("site", ""), "detail": v.get("detail", {})}
json.dump(case, open(sys.argv[3], "w"), indent=1, sort_keys=True)
print("witness", sys.argv[3], case["expect"])
